// simbus: a simulated eBUS (single shared wire at 2400 Bd), its SYN generator, scripted participants,
// the reacting target of ebusd's own requests, and ebusd's device endpoint (plain tty or enhanced adapter model).
// Independent of /repo.
#ifndef VERIF_SIMBUS_H_
#define VERIF_SIMBUS_H_

#include <deque>
#include <functional>
#include <string>
#include <vector>

#include "history.h"
#include "plan.h"
#include "ref.h"
#include "simkernel.h"

namespace simbus {

using sim::ns_t;
using ref::Bytes;

constexpr ns_t SYM = 4167 * sim::US;  // duration of one symbol at 2400 Bd (10 bits)

struct Step {
  char who = 'M';   // 'M' scripted master, 'S' scripted slave, 'N' noise
  uint8_t b = 0;
  ns_t gap = 0;     // extra silence before this symbol (beyond back-to-back)
};

// behaviour of the participant addressed by one of ebusd's own exchanges
struct React {
  uint64_t id = 0;
  char ack1 = 'A', ack2 = 'A';     // 'A' ACK, 'N' NAK, 'X' other symbol (ackVal), '-' silence, 'S' SYN
  uint8_t ackVal = 0x55;
  char resp1 = 'G', resp2 = 'G';   // 'G' good, 'C' bad CRC, 'T' truncated (one byte short, then silence), 'L' one byte too many, '-' silence
  Bytes respData;                  // unescaped NN D...; empty: derived from the request
  int echoBadAt = -1;              // corrupt the echo of the k-th symbol ebusd transmits in this exchange (0 = address)
  uint8_t echoXor = 0x04;
  ns_t delay = 500 * sim::US;      // reaction delay
  bool used = false;
};

struct BusItem {
  uint64_t id = 0;
  enum Kind { IDLE, SCRIPT, REQUESTER, SIGOFF } kind = IDLE;
  int idleSyns = 0;                // SYN periods to let pass before the item starts (IDLE: how many)
  std::vector<Step> steps;         // SCRIPT: symbols after the start SYN; REQUESTER: the master part (wire form)
  // REQUESTER (a scripted master addressing ebusd in answer mode)
  Bytes master2;                   // wire form of the second attempt after a NAK (empty: repeat the first)
  int nakResponses = 0;            // how many of ebusd's responses are NAK-ed (0..2)
  bool expectResponse = false;     // ZZ is a slave address
  ns_t offMs = 0;                  // SIGOFF: SYN generator off for this long
};

struct BusConfig {
  bool enhanced = false;
  ns_t rxLatency = 300 * sim::US;   // wire -> device fd
  ns_t txLatency = 200 * sim::US;   // device fd -> wire
  ns_t synPeriod = 44 * sim::MS;    // SYN generator: SYN after this much silence
  bool synGen = true;
  ns_t arbDelay = 300 * sim::US;    // scripted master starts its address this long after a SYN
  int chunkMode = 0;                // 0 all available bytes, 1 single bytes, 2 seeded
  ns_t batchWindow = 0;             // > 0: the device hands bytes to the kernel only every batchWindow (USB style)
  int enhPlainPct = 100;            // enhanced: percentage of symbols < 0x80 sent in short form
  int enhFeatures = 1;
  uint8_t ownAddress = 0x31;
};

class Bus;

// ebusd's device endpoint: owns the simulated fd, translates between wire symbols and fd bytes
class Port {
 public:
  Port(Bus* bus, sim::History* h) : m_bus(bus), m_hist(h) {}
  // called from SimTransport::openInternal() on a sim thread; returns the fd or -1 on an injected open failure
  int open();
  void wireSymbol(uint8_t b, int mask);   // a symbol completed on the wire
  void adapterInject(const Bytes& raw);   // enhanced: the adapter emits these raw bytes now (faults, resets)
  sim::Stream* stream() const { return m_s; }
  int openFailures = 0;                   // number of upcoming open() calls to fail
  std::function<int(char, uint64_t)> fault;   // installed on every stream this port opens
  uint64_t generation = 0;
  bool txBusy() const { return m_txBusy; }
  void onOwnSymbolDone();                 // the symbol ebusd is transmitting completed on the wire
  bool arbPending() const { return m_arbArmed; }

 private:
  void onWrite(const uint8_t* p, size_t n);
  void toFd(const Bytes& raw, int mask);
  void flushBatch();
  void pumpTx();
  void handleEnhancedCmd(uint8_t cmd, uint8_t data);
  void emitEnh(uint8_t cmd, uint8_t data, int mask);
  Bus* m_bus;
  sim::History* m_hist;
  sim::Stream* m_s = nullptr;
  std::deque<uint8_t> m_txQueue;
  bool m_txBusy = false;
  Bytes m_batch, m_batchMask;
  bool m_batchArmed = false;
  // enhanced adapter state
  int m_enhFirst = -1;
  bool m_arbArmed = false;
  uint8_t m_arbAddr = 0;
  bool m_arbSent = false;
  std::deque<uint8_t> m_infoQueue;
};

class Bus {
 public:
  Bus(const BusConfig& cfg, sim::History* h);
  BusConfig cfg;
  sim::History* hist;
  Port port;
  std::deque<BusItem> items;
  std::deque<React> reacts;
  // L3: the heating system model supplies the slave data (unescaped NN D..) for a request of ebusd; empty = default
  std::function<Bytes(const Bytes& master)> slaveResponder;
  // called when the addressed participant has reacted to a complete master part of ebusd
  std::function<void(const Bytes& master, const Bytes& slave, bool answered)> onExchange;
  void start();                          // arms the SYN generator
  void transmit(int who, uint8_t b, uint64_t item);
  bool busy() const { return m_busy; }
  // statistics / reach
  uint64_t nSymbols = 0, nCollisions = 0, nItemsDone = 0, nItemsLostArb = 0, nEbusdExchanges = 0, nReactsUsed = 0;
  bool itemsExhausted() const { return items.empty() && m_mode == IDLE; }
  void setSynGen(bool on);
  ns_t lastActivity() const { return m_lastEnd; }

 private:
  enum Mode { IDLE, SCRIPT, REQ_WAIT_ACK, REQ_RECV_RESP, EBUSD_MASTER, EBUSD_WAIT_RESP_ACK };
  void complete();
  void armSyn();
  void synTimer(uint64_t gen);
  void onSymbol(uint8_t b, int mask, bool afterSyn);
  void startItem();
  void scriptNext();
  void scriptSend(uint64_t gen);
  void endItem(bool lostArb);
  void ebusdMasterSymbol(uint8_t b);
  void respond();
  void sendList(const std::vector<Step>& l, size_t pos, uint64_t gen);
  void requesterSymbol(uint8_t b, int mask);
  void requesterTimeout(uint64_t gen);
  void requesterSendMaster(bool second);
  // wire state
  bool m_busy = false;
  uint8_t m_cur = 0xff;
  int m_mask = 0;
  uint64_t m_curItem = 0;
  ns_t m_lastEnd = 0;
  bool m_lastWasSyn = false;
  uint64_t m_synGen = 0;
  // director state
  Mode m_mode = IDLE;
  BusItem m_item;
  size_t m_pos = 0;
  uint64_t m_gen = 0;                    // invalidates pending timers of an aborted item
  int m_idleLeft = 0;
  bool m_haveItem = false;
  // ebusd-as-master tracking
  Bytes m_em;                            // unescaped master bytes seen so far
  uint8_t m_emCrc = 0;
  bool m_emEsc = false;
  int m_emTxCount = 0;                   // symbols transmitted by ebusd in this exchange
  int m_emAttempt = 0;                   // 0/1 master part attempt
  int m_emRespAttempt = 0;
  bool m_emMasterDone = false;
  React m_react;
  // requester tracking
  Bytes m_rq;                            // raw response bytes from ebusd
  bool m_rqEsc = false;
  int m_rqAttempt = 0, m_rqRespSeen = 0;
  Bytes m_rqUnesc;
};

// helpers for plans
std::string stepsToText(const std::vector<Step>& s);
std::vector<Step> stepsFromText(const std::string& t);
BusItem itemFromLine(const plan::Line& l, uint64_t id);
React reactFromLine(const plan::Line& l, uint64_t id);
BusConfig busConfigFromLine(const plan::Line& cfg);

}  // namespace simbus

#endif  // VERIF_SIMBUS_H_
