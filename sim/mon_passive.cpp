// C01 oracle: the md_recv reports of ebusd must equal what an independent wire-log parser derives from the
// byte stream handed to ebusd.
#include <stdio.h>
#include <stdlib.h>

#include <deque>

#include "h_l1.h"
#include "ref_enh.h"

namespace l1 {

using sim::Ev;
using sim::MS;

namespace {

struct Handed {       // one raw byte handed to ebusd by read()
  uint8_t b;
  int64_t deliverT;
  int64_t readT;
  int mask;
  bool reset;         // first byte after a (re)open
  bool lossy;         // inside a window in which the transport reported an overflow
};

}  // namespace

// Builds the sequence of symbols handed to the protocol layer (after adapter decoding for the enhanced device).
std::vector<ref::RxSym> buildRxSyms(const RunData& rd, std::vector<int64_t>* readTimes, std::vector<std::pair<int64_t, int64_t>>* tolerant) {
  std::vector<Handed> handed;
  std::deque<Handed> fifo;
  bool pendingReset = true;
  std::vector<int64_t> overflowT;
  for (const Ev& e : rd.hist.evs) {
    if (e.kind == sim::EV_OPEN) {
      fifo.clear();
      pendingReset = true;
    } else if (e.kind == sim::EV_DELIVER) {
      for (size_t i = 0; i < e.bytes.size(); i++) {
        Handed h{e.bytes[i], e.t, 0, i < e.bytes2.size() ? e.bytes2[i] : 0, false, false};
        fifo.push_back(h);
      }
    } else if (e.kind == sim::EV_READ) {
      for (size_t i = 0; i < e.bytes.size() && !fifo.empty(); i++) {
        Handed h = fifo.front();
        fifo.pop_front();
        h.readT = e.t;
        h.reset = pendingReset;
        pendingReset = false;
        handed.push_back(h);
      }
    } else if (e.kind == sim::EV_DEVSTATUS && e.s.find("overflow") != std::string::npos) {
      overflowT.push_back(e.t);
    }
  }
  // overflow: the bytes buffered at that moment are discarded; which ones is not observable from outside, so the
  // region from 40 handed bytes before the overflow up to the next SYN after it is not judged
  for (int64_t ot : overflowT) {
    size_t k = 0;
    while (k < handed.size() && handed[k].readT <= ot) k++;
    size_t from = k > 40 ? k - 40 : 0;
    size_t to = k;
    while (to < handed.size() && handed[to].b != ref::SYN) to++;
    for (size_t i = from; i < handed.size() && i <= to; i++) handed[i].lossy = true;
    int64_t t0 = handed.empty() ? ot : handed[from].readT;
    int64_t t1 = to < handed.size() ? handed[to].readT : rd.endT;
    tolerant->push_back(std::make_pair(t0, t1 + 1));
  }
  std::vector<ref::RxSym> syms;
  if (!rd.bc.enhanced) {
    for (const Handed& h : handed) {
      ref::RxSym s;
      s.b = h.b;
      s.t = h.deliverT;
      s.own = (h.mask & sim::CB_EBUSD_MATCH) != 0;
      s.fuzzy = h.lossy;
      s.reset = h.reset || h.lossy;
      if (h.lossy) s.reset = true;
      syms.push_back(s);
      readTimes->push_back(h.readT);
    }
  } else {
    refenh::Decoder dec;
    std::vector<refenh::Event> evs;
    bool resetNext = false;
    for (size_t i = 0; i < handed.size(); i++) {
      const Handed& h = handed[i];
      if (h.reset) { dec.reset(); resetNext = true; }
      evs.clear();
      dec.feed(h.b, i, &evs);
      for (const refenh::Event& ev : evs) {
        if (ev.kind == refenh::Event::RESET) { resetNext = true; continue; }
        if (ev.kind != refenh::Event::SYMBOL) { if (ev.kind == refenh::Event::DIAG) resetNext = true; continue; }
        ref::RxSym s;
        s.b = ev.value;
        s.t = h.deliverT;
        s.own = ev.arb == refenh::ARB_WON || ((h.mask & sim::CB_EBUSD_MATCH) != 0 && ev.arb == refenh::ARB_NONE);
        s.fuzzy = h.lossy || ev.afterDangling;
        s.reset = resetNext || h.lossy;
        resetNext = false;
        syms.push_back(s);
        readTimes->push_back(h.readT);
      }
    }
  }
  // stall windows: gaps overlapping a stall of the bus thread cannot be observed by ebusd
  for (const StallWin& w : rd.stalls) {
    for (size_t i = 0; i < syms.size(); i++) {
      int64_t prev = i > 0 ? syms[i - 1].t : syms[i].t;
      int64_t next = i + 1 < syms.size() ? syms[i + 1].t : syms[i].t;
      if (next >= w.from - 2 * MS && prev <= w.to + 5 * MS) syms[i].fuzzy = true;
    }
  }
  return syms;
}

static std::string destKind(const ref::Bytes& m) {
  if (m.size() < 2) return "??";
  if (m[1] == ref::BROADCAST) return "BC";
  return ref::isMaster(m[1]) ? "MM" : "MS";
}

void checkPassive(const RunData& rd, hz::RunResult* res) {
  std::vector<int64_t> readTimes;
  std::vector<std::pair<int64_t, int64_t>> tolerant;
  std::vector<ref::RxSym> syms = buildRxSyms(rd, &readTimes, &tolerant);
  unsigned hiBase = rd.hc.receiveTimeout > 51 ? rd.hc.receiveTimeout : 51;
  ref::PassiveParser parser(static_cast<int64_t>(rd.hc.receiveTimeout) * MS,
                            static_cast<int64_t>(hiBase + 10 + rd.hc.extraLatency + 8) * MS, rd.hc.own, rd.hc.answer);
  std::vector<ref::Expected> exp = parser.parse(syms);
  // another participant using ebusd's own master address while ebusd itself has requests to send is an address conflict:
  // ebusd cannot tell that QQ from the echo of its own arbitration symbol; such telegrams are not decided
  if (!rd.reqs.empty()) {
    for (auto& e : exp) if (!e.own && !e.tg.master.empty() && e.tg.master[0] == rd.hc.own) { e.either = true; res->counters["c01.address_conflict_either"]++; }
  }
  struct Act { ref::Telegram tg; int64_t t; };
  std::vector<Act> act;
  for (const Ev& e : rd.hist.evs) {
    if (e.kind == sim::EV_MESSAGE && e.a == 0) {
      Act a;
      a.tg.master = e.bytes;
      a.tg.slave = e.bytes2;
      if (a.tg.master.size() >= 2 && (a.tg.master[1] == ref::BROADCAST || ref::isMaster(a.tg.master[1]))) a.tg.slave.clear();
      a.t = e.t;
      act.push_back(a);
    }
  }
  auto inTolerant = [&tolerant](int64_t t) {
    for (auto& w : tolerant) if (t >= w.first && t <= w.second) return true;
    return false;
  };
  // reach counters
  uint64_t must = 0, either = 0, own = 0;
  for (auto& e : exp) { if (e.own || e.ownAnswer) own++; else if (e.either) either++; else must++; }
  res->counters["c01.expected_must"] += must;
  res->counters["c01.expected_either"] += either;
  res->counters["c01.own_or_answered"] += own;
  res->counters["c01.reports"] += act.size();
  res->counters["c01.invalid_fragments"] += parser.nInvalid;
  res->counters["c01.nak_repeats"] += parser.nNakRepeat;
  res->counters["c01.trunc_by_syn"] += parser.nTruncSyn;
  res->counters["c01.trunc_by_gap"] += parser.nTruncGap;
  res->counters["c01.symbols_handed"] += syms.size();
  if (must > 0 || parser.nInvalid > 0) res->nontrivial = true;

  // order preserving alignment: every report must match an expected entry, every MUST entry must be matched
  size_t n = act.size(), m = exp.size();
  auto skippable = [&exp](size_t j) { return exp[j].either || exp[j].own || exp[j].ownAnswer; };
  auto matches = [&](size_t i, size_t j) {
    if (exp[j].own) return false;
    // the acknowledge slot carried a symbol of ebusd: either it answered (then the report is md_answer, decided by C15), or
    // a symbol it wrote for another purpose landed there (late byte of an aborted own exchange); then the telegram is
    // ordinary received traffic for ebusd and an md_recv report of exactly that telegram is right as well
    if (exp[j].ownAnswer) return exp[j].tg == act[i].tg;
    if (exp[j].tg.master.empty()) return true;  // wildcard
    return exp[j].tg == act[i].tg;
  };
  // minimal cost alignment: dropping a report costs 1 (unexpected), skipping a MUST entry costs 1 (missing)
  auto align = [&](std::vector<int>* unexpected, std::vector<int>* missing) {
    const int INF = 1 << 29;
    std::vector<std::vector<int>> cst(n + 1, std::vector<int>(m + 1, INF));
    std::vector<std::vector<char>> how(n + 1, std::vector<char>(m + 1, 0));
    cst[0][0] = 0;
    for (size_t i = 0; i <= n; i++) {
      for (size_t j = 0; j <= m; j++) {
        if (i == 0 && j == 0) continue;
        int best = INF;
        char h = 0;
        if (j > 0 && cst[i][j - 1] < INF) { int c = cst[i][j - 1] + (skippable(j - 1) ? 0 : 1); if (c < best) { best = c; h = 'E'; } }
        if (i > 0 && j > 0 && cst[i - 1][j - 1] < INF && matches(i - 1, j - 1)) { int c = cst[i - 1][j - 1]; if (c < best) { best = c; h = 'M'; } }
        if (i > 0 && cst[i - 1][j] < INF) { int c = cst[i - 1][j] + 1; if (c < best) { best = c; h = 'A'; } }
        cst[i][j] = best;
        how[i][j] = h;
      }
    }
    size_t i = n, j = m;
    while (i > 0 || j > 0) {
      char h = how[i][j];
      if (h == 'M') { i--; j--; }
      else if (h == 'E') { if (!skippable(j - 1)) missing->push_back(static_cast<int>(j - 1)); j--; }
      else { unexpected->push_back(static_cast<int>(i - 1)); i--; }
    }
    return cst[n][m];
  };
  std::vector<int> unexpected, missing;
  if (align(&unexpected, &missing) == 0) return;
  if (getenv("SIM_DEBUG")) {
    for (size_t q = 0; q < m; q++) fprintf(stderr, "EXP %zu %s/%s either=%d own=%d ans=%d end=%zu\n", q, ref::hex(exp[q].tg.master).c_str(), ref::hex(exp[q].tg.slave).c_str(), exp[q].either, exp[q].own, exp[q].ownAnswer, exp[q].endIndex);
    for (size_t q = 0; q < n; q++) fprintf(stderr, "ACT %zu %s/%s t=%.3f\n", q, ref::hex(act[q].tg.master).c_str(), ref::hex(act[q].tg.slave).c_str(), act[q].t / 1e6);
  }
  for (int ui : unexpected) {
    size_t i = static_cast<size_t>(ui);
    if (inTolerant(act[i].t)) continue;   // inside an overflow window nothing is judged
    const ref::Bytes& mm = act[i].tg.master;
    std::string why = "not-a-valid-telegram-in-stream";
    if (mm.size() >= 2) {
      if (!ref::isMaster(mm[0])) why = "source-not-master";
      else if (mm[1] == mm[0]) why = "self-destination";
      else if (!ref::isValidAddress(mm[1])) why = "invalid-destination";
    }
    if (why == "not-a-valid-telegram-in-stream") {
      for (size_t q = 0; q < m; q++) if (!exp[q].tg.master.empty() && exp[q].tg == act[i].tg) why = "duplicate-or-reordered";
    }
    char buf[400];
    snprintf(buf, sizeof(buf), "report #%zu at %.3fms %s/%s has no counterpart in the byte stream handed to ebusd (%s)", i,
             act[i].t / 1e6, ref::hex(mm).c_str(), ref::hex(act[i].tg.slave).c_str(), why.c_str());
    res->violate("C01", "unexpected-report", why + " " + destKind(mm), buf);
  }
  for (int qi : missing) {
    size_t q = static_cast<size_t>(qi);
    int64_t t = exp[q].endIndex < readTimes.size() ? readTimes[exp[q].endIndex] : 0;
    if (inTolerant(t)) continue;
    char buf[400];
    snprintf(buf, sizeof(buf), "telegram %s/%s ending at handed symbol %zu (%.3fms) was not reported", ref::hex(exp[q].tg.master).c_str(),
             ref::hex(exp[q].tg.slave).c_str(), exp[q].endIndex, t / 1e6);
    res->violate("C01", "missing-report", destKind(exp[q].tg.master), buf);
  }
}

}  // namespace l1
