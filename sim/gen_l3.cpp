// Plan generators for the L3 (whole daemon) families.
#include <cstring>
#include <stdio.h>
#include <string.h>

#include <algorithm>

#include "harness.h"
#include "ref.h"
#include "simbus.h"

namespace l3gen {

using ref::Bytes;
using sim::Rng;

static std::string hx(const std::string& s) { return ref::hex(Bytes(s.begin(), s.end())); }

static void addCommonCfg(plan::Plan* p, Rng& r, uint64_t seed, const char* family, bool errnoFault) {
  char buf[400];
  static const double sw[] = {0.02, 0.05, 0.1, 0.3};
  snprintf(buf, sizeof(buf), "cfg harness=l3 family=%s seed=%llu policy=%d switchp=%.2f pctdepth=%d pctsteps=%d starve=%s callcost=%d errnop=%s", family,
           static_cast<unsigned long long>(seed), static_cast<int>(r.below(4)), sw[r.below(4)], 1 + static_cast<int>(r.below(3)), 500 + static_cast<int>(r.below(3000)),
           r.chance(0.5) ? "mainloop" : "connection", 1000 + static_cast<int>(r.below(10000)), errnoFault && r.chance(0.5) ? "0.05" : "0");
  p->add(buf);
  if (seed % 25 == 0) p->add("cfg lsan=1");   // sampled: LeakSanitizer after the orderly shutdown (about 0.15 s per check)
  snprintf(buf, sizeof(buf), "cfg rxlat=%d txlat=%d synperiod=%d chunk=%d batch=0 enhanced=%d", static_cast<int>(r.below(2000)), static_cast<int>(r.below(800)),
           38000 + static_cast<int>(r.below(8000)), static_cast<int>(r.below(3)), r.chance(0.3) ? 1 : 0);
  p->add(buf);
}

static void addArg(plan::Plan* p, const std::string& a) { p->add("arg v=" + hx(a)); }

static std::string cutsFor(Rng& r, size_t len) {
  // seeded TCP segmentation of the request bytes
  std::string s;
  int mode = static_cast<int>(r.below(4));
  if (mode == 0 || len < 2) return "";
  if (mode == 1) {   // one split
    return std::to_string(1 + r.below(static_cast<uint32_t>(len - 1)));
  }
  for (size_t i = 1; i < len; i++) {
    if (mode == 2 || r.chance(0.3)) { if (!s.empty()) s += ","; s += std::to_string(i); }
  }
  return s;
}

static void addCmd(plan::Plan* p, Rng& r, int client, const std::string& text, const std::string& extra, bool allowPipe = true) {
  char buf[200];
  bool crlf = r.chance(0.3);
  snprintf(buf, sizeof(buf), " gap=%d think=%d pipe=%d crlf=%d", static_cast<int>(r.below(3000)), static_cast<int>(r.below(20)), 0 /* ebusd's client protocol is strictly request/response: no pipelining */, crlf ? 1 : 0);
  // segment boundaries anywhere in the line including its end (between CR and LF)
  std::string cuts = cutsFor(r, text.size() + (crlf ? 2 : 1));
  if (crlf && r.chance(0.25)) cuts = std::to_string(text.size() + 1);   // exactly between CR and LF
  p->add("cmd client=" + std::to_string(client) + " text=" + hx(text) + (cuts.empty() ? "" : " cuts=" + cuts) + buf + (extra.empty() ? "" : " " + extra));
}

// ---- c18t: TCP command lines over {a, b, blank, ", '} ----
static std::string randomArg(Rng& r) {
  static const char alpha[] = {'a', 'b', ' ', '"', '\'', 'a', 'b', ' '};
  int n = static_cast<int>(r.below(7));
  std::string s;
  for (int i = 0; i < n; i++) s += alpha[r.below(8)];
  return s;
}

static plan::Plan genC18t(uint64_t seed, const std::string& tier) {
  Rng r(seed);
  plan::Plan p;
  addCommonCfg(&p, r, seed, "c18t", false);
  int nclients = 1 + static_cast<int>(r.below(3));
  int ncmd = tier == "thorough" ? 10 + static_cast<int>(r.below(30)) : 5 + static_cast<int>(r.below(15));
  for (int cl = 0; cl < nclients; cl++) {
    p.add("client id=" + std::to_string(cl) + " at=" + std::to_string(50 + r.below(200)));
    // some connections are in listen mode (the connection then ticks every 2 s) and send their lines slowly
    bool listening = r.chance(0.2);
    if (listening) { addCmd(&p, r, cl, "listen", "tag=expect prop=C18 cls=tcp-argument-vector sig=listen-mode expect=" + hx("listen started")); ncmd = std::min(ncmd, 6); }
    for (int k = 0; k < ncmd; k++) {
      // the line is built from raw pieces; the oracle derives the argument vector from the line by the stated rule
      std::string line = r.chance(0.5) ? "encode" : (r.chance(0.5) ? "e" : "ENCODE");
      line += r.chance(0.15) ? "  " : " ";
      line += "STR:16";
      int extra = r.chance(0.8) ? 1 : static_cast<int>(r.below(3));
      for (int a = 0; a < extra; a++) {
        line += r.chance(0.15) ? "   " : " ";
        std::string arg = randomArg(r);
        int q = static_cast<int>(r.below(4));
        if (q == 0) line += arg;
        else if (q == 1) line += "\"" + arg + "\"";
        else if (q == 2) line += "'" + arg + "'";
        else line += (r.chance(0.5) ? "\"" : "'") + arg;   // unterminated
      }
      if (r.chance(0.1)) line += " ";
      if (listening && r.chance(0.6)) {
        // two segments, the second one after more than the 2 s tick of a listening connection
        p.add("cmd client=" + std::to_string(cl) + " text=" + hx(line) + " cuts=" + std::to_string(1 + r.below(static_cast<uint32_t>(line.size() - 1))) + " gap=" +
              std::to_string(2100000 + r.below(1500000)) + " think=5 pipe=0 crlf=" + (r.chance(0.3) ? "1" : "0") + " tag=args");
        continue;
      }
      addCmd(&p, r, cl, line, "tag=args");
    }
  }
  return p;
}

// ---- reference codec for probes ----
struct Probe { std::string cmd, expect; };
static Probe randomProbe(Rng& r) {
  Probe pr;
  char buf[128];
  int k = static_cast<int>(r.below(12));
  // fractional types go through strtod: values with an exact binary and a short decimal representation
  if (k == 8) { int raw = static_cast<int>(r.below(4000)) - 2000; snprintf(buf, sizeof(buf), "encode D2C %.4f", raw / 16.0); pr.cmd = buf; snprintf(buf, sizeof(buf), "%02x%02x", raw & 0xff, (raw >> 8) & 0xff); pr.expect = buf; return pr; }
  if (k == 9) { int raw = static_cast<int>(r.below(200)); snprintf(buf, sizeof(buf), "encode D1C %.1f", raw / 2.0); pr.cmd = buf; snprintf(buf, sizeof(buf), "%02x", raw); pr.expect = buf; return pr; }
  if (k == 10) { int q = static_cast<int>(r.below(4000)) - 2000; float f = static_cast<float>(q) / 4.0f; uint32_t u; memcpy(&u, &f, 4); snprintf(buf, sizeof(buf), "encode EXP %.2f", static_cast<double>(f)); pr.cmd = buf;
                 snprintf(buf, sizeof(buf), "%02x%02x%02x%02x", u & 0xff, (u >> 8) & 0xff, (u >> 16) & 0xff, u >> 24); pr.expect = buf; return pr; }
  if (k == 11) { int raw = static_cast<int>(r.below(60000)) - 30000; snprintf(buf, sizeof(buf), "encode D2B %.8f", raw / 256.0); pr.cmd = buf; snprintf(buf, sizeof(buf), "%02x%02x", raw & 0xff, (raw >> 8) & 0xff); pr.expect = buf; return pr; }
  if (k == 0) { int v = static_cast<int>(r.below(255)); snprintf(buf, sizeof(buf), "encode UCH %d", v); pr.cmd = buf; snprintf(buf, sizeof(buf), "%02x", v); pr.expect = buf; }
  else if (k == 1) { int v = static_cast<int>(r.below(65535)); snprintf(buf, sizeof(buf), "encode UIN %d", v); pr.cmd = buf; snprintf(buf, sizeof(buf), "%02x%02x", v & 0xff, v >> 8); pr.expect = buf; }
  else if (k == 2) { int v = static_cast<int>(r.below(255)) - 127; snprintf(buf, sizeof(buf), "encode SCH %d", v); pr.cmd = buf; snprintf(buf, sizeof(buf), "%02x", v & 0xff); pr.expect = buf; }
  else if (k == 3) { uint32_t v = static_cast<uint32_t>(r.next() % 4294967295ULL); snprintf(buf, sizeof(buf), "encode ULG %u", v); pr.cmd = buf; snprintf(buf, sizeof(buf), "%02x%02x%02x%02x", v & 0xff, (v >> 8) & 0xff, (v >> 16) & 0xff, v >> 24); pr.expect = buf; }
  else if (k == 4) { int v = static_cast<int>(r.below(255)); snprintf(buf, sizeof(buf), "decode UCH %02x", v); pr.cmd = buf; snprintf(buf, sizeof(buf), "%d", v); pr.expect = buf; }
  else if (k == 5) { int v = static_cast<int>(r.below(65535)); snprintf(buf, sizeof(buf), "decode UIN %02x%02x", v & 0xff, v >> 8); pr.cmd = buf; snprintf(buf, sizeof(buf), "%d", v); pr.expect = buf; }
  else if (k == 6) { int v = static_cast<int>(r.below(100)); snprintf(buf, sizeof(buf), "encode BCD %d", v); pr.cmd = buf; snprintf(buf, sizeof(buf), "%02x", (v / 10) * 16 + v % 10); pr.expect = buf; }
  else { int v = static_cast<int>(r.below(65535)) - 32767; snprintf(buf, sizeof(buf), "encode SIN %d", v); pr.cmd = buf; snprintf(buf, sizeof(buf), "%02x%02x", v & 0xff, (v >> 8) & 0xff); pr.expect = buf; }
  return pr;
}

static std::string hostileCommand(Rng& r) {
  static const char* cmds[] = {
    "encode UCH 99999999999999999999", "encode UIN 99999999999999999999", "encode ULG 99999999999999999999999", "encode SCH -99999999999999999999",
    "encode UCH 256", "encode UCH -1", "encode UCH abc", "encode UIN 1e99", "encode D2C 1e400", "encode FLT 1e-400", "encode FLT nan", "encode ULG 4294967296",
    "decode UCH zz", "decode UIN 01", "decode BCD ff", "decode HDA:3 ffffff", "encode BDA 32.13.2099", "encode HEX:2 zz", "encode STR:2 abcdef",
    "decode D2C 0080", "encode EXP 1e40", "encode UCH 0x1ffffffffffffffff", "encode SIN 99999", "info", "state", "find", "find -f nothing", "read nothing", "write -c x y 1",
    "encode UCH", "decode", "encode UCH 1 2 3", "encode ULG -0", "encode UCH 1e1", "encode TEM_P 999",
  };
  return cmds[r.below(sizeof(cmds) / sizeof(cmds[0]))];
}

// ---- c12: codec probes after a hostile history, errno clobbering by the kernel ----
static plan::Plan genC12(uint64_t seed, const std::string& tier) {
  Rng r(seed);
  plan::Plan p;
  addCommonCfg(&p, r, seed, "c12", true);
  addArg(&p, "--enabledefine");
  int nclients = 1 + static_cast<int>(r.below(3));
  int n = tier == "thorough" ? 15 + static_cast<int>(r.below(40)) : 8 + static_cast<int>(r.below(20));
  for (int cl = 0; cl < nclients; cl++) {
    p.add("client id=" + std::to_string(cl) + " at=" + std::to_string(50 + r.below(100)));
    for (int k = 0; k < n; k++) {
      if (r.chance(0.3)) {
        // decoding two fields together equals decoding each alone (no formatting state leaks between fields)
        struct T { const char* def; int len; };
        static const T types[] = {{"D2C", 2}, {"D2B", 2}, {"D1C", 1}, {"EXP", 4}, {"FLT", 2}, {"UCH", 1}, {"SCH", 1}, {"UIN", 2}, {"SIN", 2}, {"ULG", 4}, {"BCD", 1},
                                  {"HEX:2", 2}, {"STR:3", 3}, {"BTI", 3}, {"HTI", 3}, {"BDA", 4}, {"UCH,10", 1}, {"UIN,-10", 2}, {"SLG,1000", 4}, {"EXR", 4}, {"D1B", 1}, {"UCH,0=off;1=on", 1}};
        const T& a = r.chance(0.4) ? types[11] : types[r.below(22)];   // HEX first: it leaves the stream in hex mode
        const T& b = types[r.below(22)];
        auto bytes = [&r](int n, bool printable) { std::string h; char bb[4]; for (int i = 0; i < n; i++) { int v = printable ? 0x41 + static_cast<int>(r.below(26)) : static_cast<int>(r.below(256)); if (!printable && r.chance(0.1)) v = 0; snprintf(bb, sizeof(bb), "%02x", v); h += bb; } return h; };
        // valid time and date encodings most of the time (random bytes rarely are), with two digit values
        auto special = [&r](const std::string& def, std::string* h) {
          char bb[16];
          auto bcd = [](int v) { return (v / 10) * 16 + v % 10; };
          int hh = 10 + static_cast<int>(r.below(14)), mi = 10 + static_cast<int>(r.below(50)), ss = 10 + static_cast<int>(r.below(50));
          if (def == "BTI") { snprintf(bb, sizeof(bb), "%02x%02x%02x", bcd(ss), bcd(mi), bcd(hh)); *h = bb; return true; }
          if (def == "HTI") { snprintf(bb, sizeof(bb), "%02x%02x%02x", hh, mi, ss); *h = bb; return true; }
          if (def == "BDA") { snprintf(bb, sizeof(bb), "%02x%02x%02x%02x", bcd(10 + static_cast<int>(r.below(18))), bcd(10 + static_cast<int>(r.below(3))), static_cast<int>(r.below(7)), bcd(10 + static_cast<int>(r.below(80)))); *h = bb; return true; }
          return false;
        };
        std::string ha = bytes(a.len, std::string(a.def).compare(0, 3, "STR") == 0), hb = bytes(b.len, std::string(b.def).compare(0, 3, "STR") == 0);
        if (r.chance(0.8)) { special(a.def, &ha); special(b.def, &hb); }
        std::string g = std::to_string(cl * 1000 + k);
        auto def4 = [](const std::string& d) { return d.find(',') == std::string::npos ? d + ",,," : d + ",,"; };
        addCmd(&p, r, cl, std::string("decode ") + a.def + " " + ha, "tag=compose part=a group=" + g);
        addCmd(&p, r, cl, std::string("decode ") + b.def + " " + hb, "tag=compose part=b group=" + g);
        addCmd(&p, r, cl, std::string("decode ") + def4(a.def) + "," + b.def + " " + ha + hb, "tag=compose part=ab group=" + g);
      } else if (r.chance(0.45)) {
        Probe pr = randomProbe(r);
        addCmd(&p, r, cl, pr.cmd, "tag=probe expect=" + hx(pr.expect));
      } else {
        addCmd(&p, r, cl, hostileCommand(r), "tag=none");
      }
    }
  }
  return p;
}

// ---- c12o: the same definitions in a seeded order; passive telegrams; cached reads must not depend on the order ----
static plan::Plan genC12o(uint64_t seed, const std::string& tier) {
  (void)tier;
  Rng r(seed);
  plan::Plan p;
  addCommonCfg(&p, r, seed, "c12o", false);
  p.add("cfg minms=600 maxms=60000");
  struct D { std::string csv, name, circuit; Bytes master; std::string expect; };
  std::vector<D> defs;
  char buf[200];
  // broadcast updates with 0..2 ID bytes, master-master updates, and unrelated read definitions with longer IDs
  int nb = 1 + static_cast<int>(r.below(3));
  uint8_t sb = static_cast<uint8_t>(0x10 + r.below(8));
  for (int i = 0; i < nb; i++) {
    D d;
    d.circuit = "bc";
    d.name = "b" + std::to_string(i);
    Bytes id;
    int idl = i == 0 ? static_cast<int>(r.below(2)) : 1 + static_cast<int>(r.below(2));
    for (int q = 0; q < idl; q++) id.push_back(static_cast<uint8_t>(i * 16 + q + 1));
    int v1 = static_cast<int>(r.below(255)), v2 = static_cast<int>(r.below(65535));
    snprintf(buf, sizeof(buf), "u,bc,%s,,,fe,b5%02x,%s,v1,m,UCH,,,,v2,m,UIN,,,", d.name.c_str(), sb, ref::hex(id).c_str());
    d.csv = buf;
    d.master = {0x10, 0xfe, 0xb5, sb, static_cast<uint8_t>(id.size() + 3)};
    d.master.insert(d.master.end(), id.begin(), id.end());
    d.master.push_back(static_cast<uint8_t>(v1));
    d.master.push_back(static_cast<uint8_t>(v2 & 0xff));
    d.master.push_back(static_cast<uint8_t>(v2 >> 8));
    d.expect = std::to_string(v1) + ";" + std::to_string(v2);
    if (i == 0 && id.empty() && nb > 1) d.expect = "";   // a definition without ID is shadowed for telegrams that match a longer one; only its own traffic counts (none generated)
    defs.push_back(d);
  }
  int nr = 1 + static_cast<int>(r.below(3));
  for (int i = 0; i < nr; i++) {
    D d;
    d.circuit = "cir";
    d.name = "r" + std::to_string(i);
    int idl = 2 + static_cast<int>(r.below(4));
    Bytes id;
    for (int q = 0; q < idl; q++) id.push_back(static_cast<uint8_t>(0x40 + i * 8 + q));
    snprintf(buf, sizeof(buf), "r,cir,%s,,,08,b509,%s,,,UCH", d.name.c_str(), ref::hex(id).c_str());
    d.csv = buf;
    d.expect = "";
    defs.push_back(d);
  }
  // updates seen passively between another master and a slave: 4..6 ID bytes plus master data, next to a definition with a longer ID
  int np = static_cast<int>(r.below(4));
  uint8_t sb2 = static_cast<uint8_t>(0x20 + r.below(8));
  // names that contain each other; the telegram of the shortest one comes last (a telegram for "temp" must not touch
  // what is stored for "temp2" and "outtemp")
  static const char* pnames[] = {"temp2", "outtemp", "temp"};
  for (int i = 0; i < np; i++) {
    D d;
    d.circuit = "cir";
    d.name = pnames[3 - np + i];
    int idl = 3 + static_cast<int>(r.below(4));
    Bytes id;
    for (int q = 0; q < idl; q++) id.push_back(static_cast<uint8_t>(q < 2 ? 0x0e : (r.chance(0.3) ? 0 : r.below(256))));
    id[2] = static_cast<uint8_t>(i + 1);
    int v2 = static_cast<int>(r.below(65535));
    snprintf(buf, sizeof(buf), "u,cir,%s,,,08,b5%02x,%s,v,m,UIN,,,", d.name.c_str(), sb2, ref::hex(id).c_str());
    d.csv = buf;
    d.master = {0x10, 0x08, 0xb5, sb2, static_cast<uint8_t>(id.size() + 2)};
    d.master.insert(d.master.end(), id.begin(), id.end());
    d.master.push_back(static_cast<uint8_t>(v2 & 0xff));
    d.master.push_back(static_cast<uint8_t>(v2 >> 8));
    d.expect = std::to_string(v2);
    defs.push_back(d);
  }
  if (np > 0) {
    D d;
    d.circuit = "cir";
    d.name = "rlong";
    snprintf(buf, sizeof(buf), "r,cir,rlong,,,08,b5%02x,0e0f%s,,,UCH", sb2, r.chance(0.5) ? "0102030405" : "01020304");
    d.csv = buf;
    defs.push_back(d);
  }
  // seeded permutation of the independent lines
  std::vector<size_t> order;
  for (size_t i = 0; i < defs.size(); i++) order.push_back(i);
  for (size_t i = order.size(); i > 1; i--) std::swap(order[i - 1], order[r.below(static_cast<uint32_t>(i))]);
  for (size_t i : order) p.add("csv l=" + hx(defs[i].csv));
  p.add("bus idle n=3");
  for (auto& d : defs) {
    if (d.master.empty() || d.expect.empty()) continue;
    std::vector<simbus::Step> st;
    Bytes wire = ref::renderMasterPart(d.master);
    for (uint8_t b : wire) { simbus::Step s; s.who = 'M'; s.b = b; st.push_back(s); }
    if (d.master[1] != 0xfe) {
      simbus::Step a; a.who = 'S'; a.b = 0x00; st.push_back(a);
      for (uint8_t b : ref::renderSlavePart(Bytes{0x00})) { simbus::Step s; s.who = 'S'; s.b = b; st.push_back(s); }
      a.who = 'M'; st.push_back(a);
    }
    simbus::Step e; e.who = 'M'; e.b = ref::SYN; st.push_back(e);
    p.add("bus script idle=" + std::to_string(r.below(2)) + " note=update steps=" + simbus::stepsToText(st));
  }
  p.add("client id=0 at=1500");
  // a defaults row that carries a field belongs to its file only: a message of the second file (read later) and a message
  // defined by a client afterwards must not inherit that field
  bool withRangeHeader = r.chance(0.6);
  if (r.chance(0.5)) {
    uint8_t sb4 = static_cast<uint8_t>(0x38 + r.below(8));
    snprintf(buf, sizeof(buf), "*r,dflt,,,,08,b5%02x,0d,skip,,IGN:1", sb4);
    p.add("csv l=" + hx(buf));
    p.add("csv l=" + hx("r,dflt,d0,,,,,60,v,,UCH"));
    snprintf(buf, sizeof(buf), "r,cir2,e0,,,08,b5%02x,0e61,v,,UIN%s", sb4, withRangeHeader ? ",,,," : "");
    p.add("csvz l=" + hx(buf));
    snprintf(buf, sizeof(buf), "msg name=e0 circuit=cir2 level=- dir=r zz=0x08 pb=0xb5 sb=0x%02x id=0e61 fields=UIN:2 poll=0", sb4);
    p.add(buf);
    snprintf(buf, sizeof(buf), "slave zz=0x08 pb=0xb5 sb=0x%02x id=0e61 len=2 layout=n2", sb4);
    p.add(buf);
    addCmd(&p, r, 0, "read -f -c cir2 e0", "tag=read msg=e0 force=1 prop=C12");
    snprintf(buf, sizeof(buf), "define r,cir3,e1,,,08,b5%02x,0e62,v,,UIN", sb4);
    addCmd(&p, r, 0, buf, "tag=none");
    snprintf(buf, sizeof(buf), "msg name=e1 circuit=cir3 level=- dir=r zz=0x08 pb=0xb5 sb=0x%02x id=0e62 fields=UIN:2 poll=0", sb4);
    p.add(buf);
    snprintf(buf, sizeof(buf), "slave zz=0x08 pb=0xb5 sb=0x%02x id=0e62 len=2 layout=n2", sb4);
    p.add(buf);
    addCmd(&p, r, 0, "read -f -c cir3 e1", "tag=read msg=e1 force=1 prop=C12");
    addArg(&p, "--enabledefine");
  }
  // number types restricted by a range column are derived once per process and cached: same base type, divisor, maximum
  // and step with different minima, in a seeded order, in a second file with its own column header
  if (withRangeHeader) {
    p.add("csvzhdr l=" + hx("type,circuit,name,comment,qq,zz,pbsb,id,*name,part,type,divisor/values,range,unit,comment"));
    static const int minima[] = {2, 5, 10, 15, 20};
    int mx = 30 + static_cast<int>(r.below(50));
    int nr2 = 2 + static_cast<int>(r.below(2));
    std::vector<int> mins;
    while (static_cast<int>(mins.size()) < nr2) { int mn = minima[r.below(5)]; if (std::find(mins.begin(), mins.end(), mn) == mins.end()) mins.push_back(mn); }
    uint8_t sb3 = static_cast<uint8_t>(0x30 + r.below(8));
    const char* base = r.chance(0.5) ? "UCH" : "UIN";
    for (size_t k = 0; k < mins.size(); k++) {
      snprintf(buf, sizeof(buf), "w,cir,rg%zu,,,08,b5%02x,0d7%zu,v,m,%s,,%d-%d,,", k, sb3, k, base, mins[k], mx);
      p.add("csvz l=" + hx(buf));
      snprintf(buf, sizeof(buf), "slave zz=0x08 pb=0xb5 sb=0x%02x id=0d7%zu len=0", sb3, k);
      p.add(buf);
    }
    for (size_t k = 0; k < mins.size(); k++) {
      for (int q = 0; q < 3; q++) {
        int v = q == 0 ? mins[k] - 1 : q == 1 ? mins[k] : minima[r.below(5)] + static_cast<int>(r.below(3));
        bool ok = v >= mins[k] && v <= mx;
        addCmd(&p, r, 0, "write -c cir rg" + std::to_string(k) + " " + std::to_string(v), std::string("tag=probe cls=load-order-dependent-result sig=range-derived-type expect=") + hx(ok ? "done" : "ERR: argument value out of valid range"));
      }
    }
  }
  for (auto& d : defs) {
    if (d.expect.empty()) continue;
    addCmd(&p, r, 0, "read -c " + d.circuit + " " + d.name, std::string(d.circuit == "bc" ? "tag=probe cls=load-order-dependent-result sig=passive-broadcast" : "tag=probe prop=C09 cls=telegram-not-identified sig=passive-update") + " expect=" + hx(d.expect));
  }
  return p;
}

// ---- c18h: HTTP request URIs ----
static std::string pctEncodeSome(Rng& r, const std::string& s, double pct) {
  std::string o;
  char buf[8];
  for (char ch : s) {
    if (ch != '?' && r.chance(pct)) { snprintf(buf, sizeof(buf), "%%%02X", static_cast<unsigned char>(ch)); if (r.chance(0.5)) for (char* q = buf; *q; q++) *q = static_cast<char>(tolower(*q)); o += buf; }
    else o += ch;
  }
  return o;
}

static plan::Plan genC18h(uint64_t seed, const std::string& tier) {
  Rng r(seed);
  plan::Plan p;
  addCommonCfg(&p, r, seed, "c18h", false);
  // html root with known files and a sentinel outside
  struct F { const char* path; const char* data; int outside; };
  static const F files[] = {
    {"index.html", "<html>INDEX-ROOT</html>", 0}, {"a.html", "<p>FILE-A-LOWER</p>", 0}, {"A.html", "<p>FILE-A-UPPER</p>", 0},
    {"%41.html", "<p>FILE-LITERAL-PERCENT-41</p>", 0}, {"sub/index.html", "<html>INDEX-SUB</html>", 0}, {"sub/b.json", "{\"b\":1}", 0},
    {"x.txt", "NOT-WHITELISTED", 0}, {"%2e%2e.html", "<p>FILE-LITERAL-DOTS</p>", 0}, {"secret.json", "{\"SENTINEL-OUTSIDE-ROOT\":true}", 1},
  };
  for (const F& f : files) p.add(std::string("file path=") + f.path + " data=" + hx(f.data) + (f.outside ? " outside=1" : ""));
  int n = tier == "thorough" ? 10 + static_cast<int>(r.below(30)) : 5 + static_cast<int>(r.below(15));
  static const char* paths[] = {
    "/", "/index.html", "/a.html", "/A.html", "/sub/", "/sub/b.json", "/sub/index.html", "/x.txt", "/nofile.html", "/../secret.json", "/sub/../../secret.json",
    "//secret.json", "/..", "/sub/../a.html", "/%2541.html", "/%41.html", "/.html", "/sub//b.json", "/a.html?x=1", "/%252e%252e.html", "/../html/a.html",
    "/sub/..%2f..%2fsecret.json", "/%2e%2e/secret.json", "/.%2e/secret.json", "/%2e./secret.json", "/sub/%2e%2e/%2e%2e/secret.json", "/%2f/secret.json",
  };
  for (int k = 0; k < n; k++) {
    int cl = k;
    p.add("client id=" + std::to_string(cl) + " http=1 at=" + std::to_string(50 + k * 40 + static_cast<int>(r.below(30))));
    std::string path = paths[r.below(sizeof(paths) / sizeof(paths[0]))];
    if (r.chance(0.4)) path = pctEncodeSome(r, path, 0.3);
    std::string req = "GET " + path + " HTTP/1.1\r\nHost: sim\r\n" + (r.chance(0.3) ? "Accept: */*\r\n" : "") + "\r\n";
    addCmd(&p, r, cl, req, "tag=http", false);
  }
  return p;
}

// ---------------------------------------------------------------------------------------------
// message definitions with a reference model (msg lines) for the bus facing families
// ---------------------------------------------------------------------------------------------
struct FieldT { const char* csv; const char* ref; int len; const char* gen; };
static const FieldT kFieldTypes[] = {
  {"UCH", "UCH", 1, "count"}, {"SCH", "SCH", 1, "count"}, {"UIN", "UIN", 2, "count"}, {"ULG", "ULG", 4, "count"},
  {"HEX:3", "HEX", 3, "count"}, {"STR:4", "STR", 4, "ascii"}, {"HEX:1", "HEX", 1, "count"}, {"STR:8", "STR", 8, "ascii"},
};

struct MsgDef {
  std::string circuit, name, level;
  bool write = false;
  uint8_t zz = 0x08, pb = 0xb5, sb = 0x09;
  Bytes id;
  std::vector<int> fields;          // indexes into kFieldTypes (slave fields for read, master fields for write)
  int poll = 0;
  std::vector<Bytes> chainIds;      // chained read: suffix IDs per part
  std::vector<int> chainLens;       // slave data length per part
};

static void emitMsg(plan::Plan* p, const MsgDef& m) {
  // CSV: type,circuit,name,comment,QQ,ZZ,PBSB,ID,fields...
  char buf[64];
  std::string type = m.write ? "w" : "r";
  if (m.poll) type += std::to_string(m.poll);
  std::string circuit = m.circuit + (m.level.empty() ? "" : "#" + m.level);
  snprintf(buf, sizeof(buf), "%02x,%02x%02x", m.zz, m.pb, m.sb);
  std::string idText;
  if (m.chainIds.empty()) idText = ref::hex(m.id);
  else {
    for (size_t i = 0; i < m.chainIds.size(); i++) {
      if (i) idText += ";";
      Bytes full = m.id;
      full.insert(full.end(), m.chainIds[i].begin(), m.chainIds[i].end());
      idText += ref::hex(full) + ":" + std::to_string(m.chainLens[i]);
    }
  }
  std::string csv = type + "," + circuit + "," + m.name + ",,," + buf + "," + idText;
  int total = 0;
  std::string refFields, gens;
  for (size_t i = 0; i < m.fields.size(); i++) {
    const FieldT& f = kFieldTypes[m.fields[i]];
    csv += ",f" + std::to_string(i) + "," + (m.write ? "m" : "s") + "," + f.csv + ",,,";
    refFields += (i ? "," : "") + std::string(f.ref) + ":" + std::to_string(f.len);
    total += f.len;
  }
  p->add("csv l=" + hx(csv));
  snprintf(buf, sizeof(buf), "zz=0x%02x pb=0x%02x sb=0x%02x", m.zz, m.pb, m.sb);
  std::string chain;
  for (size_t i = 0; i < m.chainIds.size(); i++) chain += (i ? "," : "") + ref::hex(m.chainIds[i]) + ":" + std::to_string(m.chainLens[i]);
  p->add("msg name=" + m.name + " circuit=" + m.circuit + " level=" + (m.level.empty() ? "-" : m.level) + " dir=" + (m.write ? "w" : "r") + " " + buf + " id=" + ref::hex(m.id) +
         " fields=" + refFields + (chain.empty() ? "" : " chain=" + chain) + " poll=" + std::to_string(m.poll));
  // registers of the simulated slave
  if (m.write) {
    p->add(std::string("slave ") + buf + " id=" + ref::hex(m.id) + " len=0");
  } else if (m.chainIds.empty()) {
    std::string layout;
    for (int fi : m.fields) layout += std::string(layout.empty() ? "" : ",") + (strcmp(kFieldTypes[fi].gen, "ascii") == 0 ? "a" : "n") + std::to_string(kFieldTypes[fi].len);
    p->add(std::string("slave ") + buf + " id=" + ref::hex(m.id) + " len=" + std::to_string(total) + " layout=" + layout);
  } else {
    for (size_t i = 0; i < m.chainIds.size(); i++) {
      Bytes full = m.id;
      full.insert(full.end(), m.chainIds[i].begin(), m.chainIds[i].end());
      // the first part of some chains always answers with the same bytes
      p->add(std::string("slave ") + buf + " id=" + ref::hex(full) + " len=" + std::to_string(m.chainLens[i]) + " gen=" + (i == 0 && (m.id.back() & 1) ? "fixedascii" : "ascii"));
    }
  }
}

static std::vector<MsgDef> randomDefs(Rng& r, int n, const std::vector<std::string>& levels, bool withChains, bool withPolls) {
  std::vector<MsgDef> v;
  for (int i = 0; i < n; i++) {
    MsgDef m;
    m.circuit = r.chance(0.7) ? "cir" : "boiler";
    m.name = "m" + std::to_string(i);
    m.zz = r.chance(0.7) ? 0x08 : 0x15;
    m.pb = 0xb5;
    m.sb = static_cast<uint8_t>(0x09 + r.below(3));
    m.id = {static_cast<uint8_t>(0x0d), static_cast<uint8_t>(0x10 + i), static_cast<uint8_t>(r.chance(0.2) ? 0xaa : 0x00)};
    if (r.chance(0.2)) m.id.pop_back();
    else if (r.chance(0.35)) {
      // longer IDs (4..6 bytes) that share their prefix with shorter ones of other definitions
      int extra = 1 + static_cast<int>(r.below(3));
      for (int q = 0; q < extra; q++) m.id.push_back(static_cast<uint8_t>(r.chance(0.5) ? 0x00 : r.below(256)));
      if (i > 0 && r.chance(0.5)) { m.id[1] = v[static_cast<size_t>(i) - 1].id[1]; m.sb = v[static_cast<size_t>(i) - 1].sb; m.zz = v[static_cast<size_t>(i) - 1].zz; if (v[static_cast<size_t>(i) - 1].id.size() > 2) m.id[2] = v[static_cast<size_t>(i) - 1].id[2]; }
    }
    m.write = r.chance(0.3);
    if (!levels.empty() && r.chance(0.6)) m.level = levels[r.below(static_cast<uint32_t>(levels.size()))];
    if (withChains && !m.write && r.chance(0.25)) {
      int parts = 2 + static_cast<int>(r.below(2));
      int total = 0;
      bool twoByte = r.chance(0.5);
      // ebusd requires the ID with suffix to fit into the summed part lengths (at least 4 here)
      if (m.id.size() > (twoByte ? 2u : 3u)) m.id.resize(twoByte ? 2 : 3);
      for (int k = 0; k < parts; k++) {
        // suffixes that differ in more than the last byte and share their first byte: 00 01, 01 00, 01 01
        if (twoByte) m.chainIds.push_back(Bytes{static_cast<uint8_t>((k + 1) >> 1), static_cast<uint8_t>((k + 1) & 1)});
        else m.chainIds.push_back(Bytes{static_cast<uint8_t>(k + 1)});
        int len = 2 + static_cast<int>(r.below(5));
        m.chainLens.push_back(len);
        total += len;
      }
      // one string field over all parts: STR:<total> is not in the table, use a sequence of STR:4/STR:8 plus HEX:1 fillers
      int remain = total;
      while (remain > 0) {
        if (remain >= 8) { m.fields.push_back(7); remain -= 8; }
        else if (remain >= 4) { m.fields.push_back(5); remain -= 4; }
        else { m.fields.push_back(6); remain -= 1; }
      }
    } else {
      int nf = 1 + static_cast<int>(r.below(3));
      for (int k = 0; k < nf; k++) m.fields.push_back(static_cast<int>(r.below(6)));
    }
    if (withPolls && !m.write && m.chainIds.empty() && m.level.empty() && r.chance(0.3)) m.poll = 1 + static_cast<int>(r.below(5));
    // no two definitions with the same destination, command and ID (or one being the chain prefix of the other)
    for (bool again = true; again;) {
      again = false;
      for (auto& o : v) {
        size_t n = std::min(o.id.size(), m.id.size());
        bool prefix = o.zz == m.zz && o.sb == m.sb && std::equal(o.id.begin(), o.id.begin() + static_cast<long>(n), m.id.begin());
        if (prefix && (o.id.size() == m.id.size() || !o.chainIds.empty() || !m.chainIds.empty() || o.write != m.write)) { m.id[1] = static_cast<uint8_t>(m.id[1] + 0x20); again = true; }
      }
    }
    v.push_back(m);
  }
  return v;
}

static std::string randomValueFor(Rng& r, int fieldType, std::string* encodedHex) {
  char buf[64];
  const FieldT& f = kFieldTypes[fieldType];
  std::string ref = f.ref;
  if (ref == "UCH") { int v = static_cast<int>(r.below(255)); snprintf(buf, sizeof(buf), "%02x", v); *encodedHex = buf; return std::to_string(v); }
  if (ref == "SCH") { int v = static_cast<int>(r.below(255)) - 127; snprintf(buf, sizeof(buf), "%02x", v & 0xff); *encodedHex = buf; return std::to_string(v); }
  if (ref == "UIN") { int v = static_cast<int>(r.below(65535)); snprintf(buf, sizeof(buf), "%02x%02x", v & 0xff, v >> 8); *encodedHex = buf; return std::to_string(v); }
  if (ref == "ULG") { uint32_t v = static_cast<uint32_t>(r.next() % 4294967295ULL); snprintf(buf, sizeof(buf), "%02x%02x%02x%02x", v & 0xff, (v >> 8) & 0xff, (v >> 16) & 0xff, v >> 24); *encodedHex = buf; return std::to_string(v); }
  if (ref == "HEX") {
    std::string text, enc;
    for (int i = 0; i < f.len; i++) { int v = static_cast<int>(r.below(256)); snprintf(buf, sizeof(buf), "%02x", v); enc += buf; text += (i ? " " : "") + std::string(buf); }
    *encodedHex = enc;
    return text;
  }
  std::string text, enc;
  for (int i = 0; i < f.len; i++) { char ch = static_cast<char>('a' + r.below(26)); text += ch; snprintf(buf, sizeof(buf), "%02x", ch); enc += buf; }
  *encodedHex = enc;
  return text;
}

// ---- c09: reads and writes through the daemon and the bus, chained messages, polls, retries ----
static plan::Plan genC09(uint64_t seed, const std::string& tier) {
  Rng r(seed);
  plan::Plan p;
  addCommonCfg(&p, r, seed, "c09", false);
  addArg(&p, "--pollinterval=" + std::to_string(1 + r.below(3)));
  addArg(&p, "--acquireretries=" + std::to_string(1 + r.below(3)));
  // own master address: every priority class and sub address parity (its slave address must not be one of the simulated slaves)
  if (r.chance(0.5)) {
    static const uint8_t owns[] = {0xff, 0x00, 0x11, 0x71, 0x33, 0x07, 0xf1, 0x1f, 0x70, 0xf0};
    char ab[32];
    snprintf(ab, sizeof(ab), "--address=%02x", owns[r.below(10)]);
    addArg(&p, ab);
  }
  p.add("cfg minms=400 maxms=180000");
  std::vector<MsgDef> defs = randomDefs(r, 3 + static_cast<int>(r.below(6)), {}, true, true);
  for (auto& m : defs) emitMsg(&p, m);
  // a second device that understands the same message (for requests with an explicit destination)
  std::map<std::string, int> altDst;
  for (auto& m : defs) {
    if (!m.chainIds.empty() || m.poll || !r.chance(0.3)) continue;
    int zz2 = m.zz == 0x08 ? 0x15 : 0x08;
    bool clash = false;
    for (auto& o : defs) if (&o != &m && o.zz == zz2 && o.pb == m.pb && o.sb == m.sb) clash = true;   // keep attribution simple
    if (clash) continue;
    altDst[m.name] = zz2;
    MsgDef m2 = m;
    m2.zz = static_cast<uint8_t>(zz2);
    plan::Plan tmp;
    emitMsg(&tmp, m2);
    for (auto& l : tmp.lines) if (l.kind == "slave") p.add(l.str());
  }
  int nclients = 1 + static_cast<int>(r.below(3));
  int n = tier == "thorough" ? 8 + static_cast<int>(r.below(25)) : 4 + static_cast<int>(r.below(10));
  // each client works on its own messages so that exchanges are attributable
  for (int cl = 0; cl < nclients; cl++) {
    p.add("client id=" + std::to_string(cl) + " at=" + std::to_string(300 + r.below(300)));
    for (int k = 0; k < n; k++) {
      std::vector<size_t> mine;
      for (size_t i = 0; i < defs.size(); i++) if (static_cast<int>(i % static_cast<size_t>(nclients)) == cl) mine.push_back(i);
      if (mine.empty()) break;
      const MsgDef& m = defs[mine[r.below(static_cast<uint32_t>(mine.size()))]];
      // an explicitly requested destination beats the one of the definition
      bool other = m.chainIds.empty() && altDst.count(m.name) && r.chance(0.3);
      char dbuf[40] = "";
      if (other) snprintf(dbuf, sizeof(dbuf), "-d %02x ", altDst[m.name]);
      std::string dattr = other ? " dst=" + std::to_string(altDst[m.name]) : "";
      if (m.write) {
        std::string values, enc;
        for (size_t f = 0; f < m.fields.size(); f++) {
          std::string e;
          std::string v = randomValueFor(r, m.fields[f], &e);
          values += (f ? ";" : "") + v;
          enc += e;
        }
        bool quote = values.find(' ') != std::string::npos;
        addCmd(&p, r, cl, std::string("write ") + dbuf + "-c " + m.circuit + " " + m.name + " " + (quote ? "\"" + values + "\"" : values), "tag=write msg=" + m.name + " enc=" + enc + dattr);
      } else if (other) {
        addCmd(&p, r, cl, std::string("read -f ") + dbuf + "-c " + m.circuit + " " + m.name, "tag=read msg=" + m.name + " force=1" + dattr);
      } else {
        // (the cache of a definition does not tell destinations apart: no cached reads where a second device is used)
        bool force = r.chance(0.7) || altDst.count(m.name);
        if (m.chainIds.empty() && r.chance(0.25)) {
          char hb[64];
          snprintf(hb, sizeof(hb), "%02x%02x%02x%02x", m.zz, m.pb, m.sb, static_cast<unsigned>(m.id.size()));
          addCmd(&p, r, cl, std::string("read -f -h ") + hb + ref::hex(m.id), "tag=read kind=readhex msg=" + m.name + " force=1");
        } else {
          addCmd(&p, r, cl, std::string("read ") + (force ? "-f " : "") + "-c " + m.circuit + " " + m.name, "tag=read msg=" + m.name + " force=" + (force ? "1" : "0"));
        }
      }
    }
  }
  // reactions of the slaves: mostly well behaved, some retries
  int nre = 10 + static_cast<int>(r.below(20));
  for (int i = 0; i < nre; i++) {
    int k = static_cast<int>(r.below(100));
    if (k < 70) p.add("react ack1=A resp1=G");
    else if (k < 80) p.add("react ack1=N ack2=A resp1=G");
    else if (k < 90) p.add("react ack1=A resp1=C resp2=G");
    else if (k < 95) p.add("react ack1=- ");
    else p.add("react ack1=A resp1=- resp2=-");
  }
  // some foreign traffic so that arbitration is contended
  for (int i = 0; i < static_cast<int>(r.below(6)); i++) p.add("bus idle n=" + std::to_string(1 + r.below(6)));
  if (r.chance(0.3)) { char buf[96]; snprintf(buf, sizeof(buf), "fault stall at=%d thread=mainloop ms=%d", 400 + static_cast<int>(r.below(1500)), 20 + static_cast<int>(r.below(300))); p.add(buf); }
  return p;
}

// ---- c09w: a chained write message (the shape of the repo's own test definition: last part takes the rest) ----
static plan::Plan genC09w(uint64_t seed, const std::string& tier) {
  (void)tier;
  Rng r(seed);
  plan::Plan p;
  addCommonCfg(&p, r, seed, "c09w", false);
  p.add("cfg minms=400 maxms=60000");
  int l0 = 2 + static_cast<int>(r.below(6)), l1 = 1 + static_cast<int>(r.below(4)), rest = 1 + static_cast<int>(r.below(5));
  int d = l0 + l1 + rest;
  uint8_t sb = static_cast<uint8_t>(0x09 + r.below(3));
  Bytes id = {0x0e, static_cast<uint8_t>(0x40 + r.below(16))};
  char buf[300];
  snprintf(buf, sizeof(buf), "w,cir,wc,,,08,b5%02x,%s01:%d;%s02:%d;%s03,f0,m,STR:%d", sb, ref::hex(id).c_str(), l0, ref::hex(id).c_str(), l1, ref::hex(id).c_str(), d);
  p.add("csv l=" + hx(buf));
  snprintf(buf, sizeof(buf), "msg name=wc circuit=cir level=- dir=w zz=0x08 pb=0xb5 sb=0x%02x id=%s fields=STR:%d chain=01:%d,02:%d,03:%d poll=0", sb, ref::hex(id).c_str(), d, l0, l1, rest);
  p.add(buf);
  for (int k = 1; k <= 3; k++) { snprintf(buf, sizeof(buf), "slave zz=0x08 pb=0xb5 sb=0x%02x id=%s%02x len=0", sb, ref::hex(id).c_str(), k); p.add(buf); }
  std::vector<MsgDef> defs = randomDefs(r, 2, {}, false, false);
  for (auto& m : defs) emitMsg(&p, m);
  p.add("client id=0 at=" + std::to_string(300 + r.below(300)));
  int n = 1 + static_cast<int>(r.below(3));
  for (int k = 0; k < n; k++) {
    std::string v, enc;
    char hb[4];
    for (int i = 0; i < d; i++) { char ch = static_cast<char>('A' + r.below(26)); v += ch; snprintf(hb, sizeof(hb), "%02x", ch); enc += hb; }
    addCmd(&p, r, 0, "write -c cir wc " + v, "tag=writechain msg=wc enc=" + enc);
  }
  for (int i = 0; i < 12; i++) p.add("react ack1=A resp1=G");
  return p;
}

// ---- c09s: a chain of 4..5 parts read in a slow round (the main loop is stalled between the parts) ----
static plan::Plan genC09s(uint64_t seed, const std::string& tier) {
  (void)tier;
  Rng r(seed);
  plan::Plan p;
  addCommonCfg(&p, r, seed, "c09s", false);
  p.add("cfg minms=400 maxms=240000 maxsteps=8000000");
  MsgDef m;
  m.circuit = "cir"; m.name = "slow"; m.zz = 0x08; m.sb = static_cast<uint8_t>(0x09 + r.below(3));
  m.id = r.chance(0.5) ? Bytes{static_cast<uint8_t>(0x20 + r.below(16))} : Bytes{0x0d, static_cast<uint8_t>(0x50 + r.below(16))};
  int parts = 4 + static_cast<int>(r.below(2));
  int total = 0;
  for (int k = 0; k < parts; k++) { m.chainIds.push_back(Bytes{static_cast<uint8_t>(k + 1)}); int len = 2 + static_cast<int>(r.below(3)); m.chainLens.push_back(len); total += len; }
  int remain = total;
  while (remain > 0) { if (remain >= 8) { m.fields.push_back(7); remain -= 8; } else if (remain >= 4) { m.fields.push_back(5); remain -= 4; } else { m.fields.push_back(6); remain -= 1; } }
  emitMsg(&p, m);
  p.add("client id=0 at=400");
  addCmd(&p, r, 0, "read -f -c cir slow", "tag=read msg=slow force=1");
  // the second round: every part is started in a short window between two long stalls of the main loop thread, so that
  // the whole round takes longer than 15 s times (2 + ID prefix bytes) but stays inside 15 s per part
  int stallMs = 50000 / (parts - 1) + 500 + static_cast<int>(r.below(1500));
  if (stallMs > 14500) stallMs = 14500;
  int64_t t = 2500;
  for (int k = 0; k < parts + 1; k++) {
    char buf[120];
    snprintf(buf, sizeof(buf), "fault stall at=%lld thread=mainloop ms=%d", static_cast<long long>(t), stallMs);
    p.add(buf);
    t += stallMs + 60 + static_cast<int>(r.below(60));
  }
  p.add("cmd client=0 text=" + hx("read -f -c cir slow") + " gap=100 think=2300 pipe=0 crlf=0 tag=read msg=slow force=1");
  addCmd(&p, r, 0, "read -c cir slow", "tag=read msg=slow force=0");
  for (int i = 0; i < 30; i++) p.add("react ack1=A resp1=G");
  return p;
}

// ---- c09f: reads with a master side parameter and selection of one field by name and index (names occur twice) ----
static plan::Plan genC09f(uint64_t seed, const std::string& tier) {
  (void)tier;
  Rng r(seed);
  plan::Plan p;
  addCommonCfg(&p, r, seed, "c09f", false);
  p.add("cfg minms=400 maxms=60000");
  int nm = static_cast<int>(r.below(3));        // 0..2 master side fields
  int ns = 2 + static_cast<int>(r.below(3));    // 2..4 slave side fields
  uint8_t sb = static_cast<uint8_t>(0x09 + r.below(3));
  Bytes id = {0x0d, static_cast<uint8_t>(0x60 + r.below(16))};
  static const char* names[] = {"v", "v", "t", "v", "t"};
  std::string csv = "r,cir,mf,,,08,b5";
  char buf[300];
  snprintf(buf, sizeof(buf), "%02x,%s", sb, ref::hex(id).c_str());
  csv += buf;
  std::vector<std::string> mnames;
  for (int i = 0; i < nm; i++) { mnames.push_back(r.chance(0.5) ? "idx" : names[r.below(5)]); csv += "," + mnames.back() + ",m,UCH,,,"; }
  std::string refFields, layout;
  std::vector<std::string> snames;
  for (int i = 0; i < ns; i++) {
    bool wide = r.chance(0.3);
    std::string nme = names[r.below(5)];
    snames.push_back(nme);
    csv += "," + nme + ",s," + (wide ? "UIN" : "UCH") + ",,,";
    refFields += std::string(i ? "," : "") + (wide ? "UIN:2" : "UCH:1");
    layout += std::string(i ? "," : "") + (wide ? "n2" : "n1");
  }
  p.add("csv l=" + hx(csv));
  int slen = 0;
  for (auto& t : snames) (void)t;
  { size_t q = 0; while (q < layout.size()) { slen += layout[q + 1] - '0'; q += 3; } }
  snprintf(buf, sizeof(buf), "msg name=mf circuit=cir level=- dir=r zz=0x08 pb=0xb5 sb=0x%02x id=%s fields=%s poll=0 mlen=%d", sb, ref::hex(id).c_str(), refFields.c_str(), nm);
  p.add(buf);
  snprintf(buf, sizeof(buf), "slave zz=0x08 pb=0xb5 sb=0x%02x id=%s len=%d layout=%s", sb, ref::hex(id).c_str(), slen, layout.c_str());
  p.add(buf);
  p.add("client id=0 at=" + std::to_string(300 + r.below(300)));
  int n = 3 + static_cast<int>(r.below(6));
  for (int k = 0; k < n; k++) {
    std::string in;
    for (int i = 0; i < nm; i++) in += std::string(i ? ";" : "") + std::to_string(1 + r.below(200));
    std::string cmd = std::string("read -f ") + (nm ? "-i " + in + " " : "") + "-c cir mf";
    int sel = static_cast<int>(r.below(static_cast<uint32_t>(ns)));
    if (r.chance(0.8)) {
      // FIELD.N : N counts the fields of that name
      int nth = 0;   // master side fields of that name count as well
      for (auto& mn : mnames) if (mn == snames[static_cast<size_t>(sel)]) nth++;
      for (int i = 0; i < sel; i++) if (snames[static_cast<size_t>(i)] == snames[static_cast<size_t>(sel)]) nth++;
      bool only = nth == 0;
      for (int i = 0; i < ns; i++) if (i != sel && snames[static_cast<size_t>(i)] == snames[static_cast<size_t>(sel)]) only = false;
      cmd += " " + snames[static_cast<size_t>(sel)] + (only && r.chance(0.5) ? "" : "." + std::to_string(nth));
      addCmd(&p, r, 0, cmd, "tag=read msg=mf force=1 field=" + std::to_string(sel));
    } else {
      addCmd(&p, r, 0, cmd, "tag=read msg=mf force=1");
    }
  }
  for (int i = 0; i < 12; i++) p.add("react ack1=A resp1=G");
  return p;
}

// ---- c16: access levels over interleaved sessions ----
static plan::Plan genC16(uint64_t seed, const std::string& tier) {
  Rng r(seed);
  plan::Plan p;
  addCommonCfg(&p, r, seed, "c16", false);
  addArg(&p, "--pollinterval=1");
  addArg(&p, "--enablehex");
  p.add("cfg minms=400 maxms=180000");
  // level names that are prefixes, suffixes and infixes of each other
  static const char* pool[] = {"a", "aa", "ab", "b", "ba", "aab", "install", "inst", "stall", "service"};
  std::vector<std::string> levels;
  int nl = 2 + static_cast<int>(r.below(4));
  for (int i = 0; i < nl; i++) { std::string l = pool[r.below(10)]; if (std::find(levels.begin(), levels.end(), l) == levels.end()) levels.push_back(l); }
  // users
  struct U { std::string name, secret; std::vector<std::string> lv; };
  std::vector<U> users;
  int nu = 1 + static_cast<int>(r.below(3));
  for (int i = 0; i < nu; i++) {
    U u;
    u.name = "user" + std::to_string(i);
    u.secret = "pw" + std::to_string(r.below(1000));
    int k = static_cast<int>(r.below(4));
    for (int q = 0; q < k; q++) { std::string l = r.chance(0.1) ? "*" : std::string(pool[r.below(10)]); if (std::find(u.lv.begin(), u.lv.end(), l) == u.lv.end()) u.lv.push_back(l); }
    users.push_back(u);
    if (r.chance(0.25)) {
      // an earlier line for the same user with another secret and other levels: the later line counts
      std::string old = u.name + ",old" + std::to_string(r.below(100)) + "," + pool[r.below(10)] + (r.chance(0.3) ? ",*" : "");
      p.add("acl l=" + hx(old));
    }
    std::string line = u.name + "," + u.secret;
    std::string lv;
    for (auto& l : u.lv) { line += "," + l; lv += (lv.empty() ? "" : ";") + l; }
    p.add("acl l=" + hx(line));
    p.add("user name=" + u.name + " secret=" + u.secret + " levels=" + (lv.empty() ? "-" : lv));
  }
  std::string deflv;
  if (r.chance(0.5)) {
    std::vector<std::string> d;
    int k = 1 + static_cast<int>(r.below(2));
    for (int q = 0; q < k; q++) { std::string l = pool[r.below(10)]; if (std::find(d.begin(), d.end(), l) == d.end()) d.push_back(l); }
    for (auto& l : d) deflv += (deflv.empty() ? "" : ";") + l;
    if (r.chance(0.4)) addArg(&p, "--accesslevel=" + deflv);
    else {
      // the ACL line for "*" replaces what --accesslevel gave
      if (r.chance(0.5)) addArg(&p, std::string("--accesslevel=") + (r.chance(0.3) ? "*" : pool[r.below(10)]));
      std::string line = "*,"; for (auto& l : d) line += "," + l; p.add("acl l=" + hx(line));
    }
  } else if (r.chance(0.2)) {
    // an ACL line for "*" without any level takes the default levels of --accesslevel away again
    addArg(&p, std::string("--accesslevel=") + pool[r.below(10)]);
    p.add("acl l=" + hx("*,"));
  }
  p.add("user name=* secret=- levels=" + (deflv.empty() ? "-" : deflv));
  // the MQTT data sink filters with the levels of the ACL user "mqtt", otherwise with the default levels
  if (r.chance(0.3)) {
    addArg(&p, "--mqttport=1883");
    addArg(&p, "--mqtttopic=ebusd/%circuit/%name");
    p.add("mqttsink on=1");
    p.add("cfg minms=16000");
    if (r.chance(0.6)) {
      std::vector<std::string> d;
      int k = static_cast<int>(r.below(3));
      for (int q = 0; q < k; q++) { std::string l = r.chance(0.1) ? "*" : std::string(pool[r.below(10)]); if (std::find(d.begin(), d.end(), l) == d.end()) d.push_back(l); }
      std::string line = "mqtt,", lv;
      for (auto& l : d) { line += "," + l; lv += (lv.empty() ? "" : ";") + l; }
      p.add("acl l=" + hx(line));
      p.add("user name=mqtt secret=- levels=" + (lv.empty() ? "-" : lv));
    }
  }
  // wrong secrets: unrelated, the right one with something appended, the right one twice, a proper prefix of the right one
  auto wrongSecret = [&r](const std::string& right) {
    int k = static_cast<int>(r.below(5));
    if (k == 0) return right + "x";
    if (k == 1) return right + right;
    if (k == 2 && right.size() > 1) return right.substr(0, right.size() - 1);
    if (k == 3) return right + "0";
    return std::string("wrong");
  };
  std::vector<MsgDef> defs = randomDefs(r, 3 + static_cast<int>(r.below(5)), levels, false, false);
  for (auto& m : defs) emitMsg(&p, m);
  // a second file whose header has a level column: the defaults row carries the level, messages with an empty level column
  // inherit it, a message with its own level overrides it
  if (r.chance(0.35)) {
    p.add("csvzhdr l=" + hx("type,circuit,level,name,comment,qq,zz,pbsb,id,*name,part,type,divisor,unit,comment"));
    std::string dl = levels[r.below(static_cast<uint32_t>(levels.size()))];
    p.add("csvz l=" + hx("*r,cirz," + dl + ",,,,08,b50c,0c"));
    int nz = 1 + static_cast<int>(r.below(3));
    for (int i = 0; i < nz; i++) {
      MsgDef m;
      m.circuit = "cirz"; m.zz = 0x08; m.pb = 0xb5; m.sb = 0x0c;
      m.id = {0x0c, static_cast<uint8_t>(0x70 + i), 0x00};
      m.fields = {0};
      bool own = r.chance(0.3);
      m.name = std::string(own ? "own" : "inh") + std::to_string(i);
      m.level = own ? levels[r.below(static_cast<uint32_t>(levels.size()))] : dl;
      char b2[120];
      snprintf(b2, sizeof(b2), "r,,%s,%s,,,,,%02x00,f0,,UCH,,,", own ? m.level.c_str() : "", m.name.c_str(), 0x70 + i);
      p.add("csvz l=" + hx(b2));
      plan::Plan tmp;
      emitMsg(&tmp, m);
      for (auto& l : tmp.lines) if (l.kind == "slave" || l.kind == "msg") p.add(l.str());
      defs.push_back(m);
    }
  }
  // passively seen broadcast messages with a level: once their data is there, a cached read by name must still be refused
  std::vector<std::string> passiveNames;
  if (r.chance(0.4)) {
    int np = 1 + static_cast<int>(r.below(2));
    for (int i = 0; i < np; i++) {
      std::string lvl = levels[r.below(static_cast<uint32_t>(levels.size()))];
      char b2[200];
      snprintf(b2, sizeof(b2), "u,cir#%s,pas%d,,,fe,b516,%02x,v,m,UIN,,,", lvl.c_str(), i, 0x70 + i);
      p.add("csv l=" + hx(b2));
      snprintf(b2, sizeof(b2), "msg name=pas%d circuit=cir level=%s dir=r zz=0xfe pb=0xb5 sb=0x16 id=%02x fields=UIN:2 poll=0", i, lvl.c_str(), 0x70 + i);
      p.add(b2);
      int v = static_cast<int>(r.below(65000));
      Bytes master = {0x10, 0xfe, 0xb5, 0x16, 0x03, static_cast<uint8_t>(0x70 + i), static_cast<uint8_t>(v & 0xff), static_cast<uint8_t>(v >> 8)};
      std::vector<simbus::Step> st;
      for (uint8_t b : ref::renderMasterPart(master)) { simbus::Step s2; s2.who = 'M'; s2.b = b; st.push_back(s2); }
      simbus::Step e; e.who = 'M'; e.b = ref::SYN; st.push_back(e);
      p.add("bus script idle=1 note=passive steps=" + simbus::stepsToText(st));
      passiveNames.push_back("pas" + std::to_string(i));
    }
  }
  int nclients = 2 + static_cast<int>(r.below(4));
  int n = tier == "thorough" ? 6 + static_cast<int>(r.below(20)) : 3 + static_cast<int>(r.below(8));
  int clientId = 0;
  for (int cl = 0; cl < nclients; cl++) {
    bool http = r.chance(0.2);
    if (http) {
      // one request per HTTP connection
      for (int k = 0; k < 2; k++) {
        const MsgDef& m = defs[r.below(static_cast<uint32_t>(defs.size()))];
        p.add("client id=" + std::to_string(clientId) + " http=1 at=" + std::to_string(300 + r.below(1500)));
        std::string q;
        int a = static_cast<int>(r.below(4));
        std::string uname = "-", secret = "-";
        if (a >= 1 && !users.empty()) {
          const U& u = users[r.below(static_cast<uint32_t>(users.size()))];
          uname = u.name;
          secret = a == 1 ? u.secret : (a == 2 ? wrongSecret(u.secret) : "");
          q = "user=" + uname + (a == 3 ? "" : "&secret=" + secret);
        }
        std::string required = r.chance(0.7) ? "required" : "";
        if (!required.empty()) q += (q.empty() ? "" : "&") + required;
        if (r.chance(0.2)) q += (q.empty() ? "" : "&") + std::string("poll=3");
        std::string req = "GET /data/" + m.circuit + "/" + m.name + (q.empty() ? "" : "?" + q) + " HTTP/1.1\r\n\r\n";
        addCmd(&p, r, clientId, req, "tag=httpdata msg=" + m.name + " user=" + uname + " secret=" + (secret.empty() ? "-" : secret), false);
        clientId++;
      }
      continue;
    }
    p.add("client id=" + std::to_string(clientId) + " at=" + std::to_string(300 + r.below(600)));
    for (int k = 0; k < n; k++) {
      int what = static_cast<int>(r.below(10));
      if (what < 2 && !users.empty()) {
        const U& u = users[r.below(static_cast<uint32_t>(users.size()))];
        int a = static_cast<int>(r.below(4));
        std::string name = a == 3 ? "nobody" : u.name;
        std::string secret = a == 0 || a == 1 ? u.secret : wrongSecret(u.secret);
        addCmd(&p, r, clientId, "auth " + name + " " + secret, "tag=auth user=" + name + " secret=" + secret);
        continue;
      }
      if (!passiveNames.empty() && r.chance(0.25)) {
        const std::string& pn = passiveNames[r.below(static_cast<uint32_t>(passiveNames.size()))];
        addCmd(&p, r, clientId, std::string(r.chance(0.5) ? "read -c cir " : "read ") + pn + (r.chance(0.3) ? " v" : ""), "tag=acl lenient=1 kind=read msg=" + pn);
        continue;
      }
      const MsgDef& m = defs[r.below(static_cast<uint32_t>(defs.size()))];
      bool withCircuit = r.chance(0.7);
      if (m.write) {
        std::string values, enc;
        for (size_t f = 0; f < m.fields.size(); f++) { std::string e; std::string v = randomValueFor(r, m.fields[f], &e); values += (f ? ";" : "") + v; enc += e; }
        bool quote = values.find(' ') != std::string::npos;
        if (r.chance(0.25)) {
          // hex form: ZZPBSBNN + ID + data
          char buf[64];
          Bytes idb = m.id;
          snprintf(buf, sizeof(buf), "%02x%02x%02x%02x", m.zz, m.pb, m.sb, static_cast<unsigned>(idb.size() + enc.size() / 2));
          addCmd(&p, r, clientId, std::string("write -h ") + buf + ref::hex(idb) + enc, "tag=acl kind=writehex msg=" + m.name + " enc=" + enc);
        } else {
          addCmd(&p, r, clientId, "write -c " + m.circuit + " " + m.name + " " + (quote ? "\"" + values + "\"" : values), "tag=acl kind=write msg=" + m.name + " enc=" + enc);
        }
      } else {
        int form = static_cast<int>(r.below(10));
        if (form < 2) {
          char buf[64];
          snprintf(buf, sizeof(buf), "%02x%02x%02x%02x", m.zz, m.pb, m.sb, static_cast<unsigned>(m.id.size()));
          // forced, from the cache when fresh, or with a client chosen maximum age
          const char* how = r.chance(0.4) ? "read -f -h " : r.chance(0.5) ? "read -h " : "read -m 86400 -h ";
          addCmd(&p, r, clientId, std::string(how) + buf + ref::hex(m.id), "tag=acl kind=readhex msg=" + m.name);
        } else if (form < 3) {
          addCmd(&p, r, clientId, "read -p " + std::to_string(1 + r.below(9)) + " -c " + m.circuit + " " + m.name, "tag=acl kind=readpoll msg=" + m.name);
        } else {
          addCmd(&p, r, clientId, std::string(r.chance(0.6) ? "read -f " : r.chance(0.5) ? "read " : "read -m 86400 ") + (withCircuit ? "-c " + m.circuit + " " : "") + m.name, "tag=acl kind=read msg=" + m.name);
        }
      }
    }
    clientId++;
  }
  for (int i = 0; i < 30; i++) p.add("react ack1=A resp1=G");
  return p;
}

// ---- c16v: conditional variants of one circuit/name that carry different levels; cached listings and listen mode ----
static plan::Plan genC16v(uint64_t seed, const std::string& tier) {
  Rng r(seed);
  plan::Plan p;
  addCommonCfg(&p, r, seed, "c16v", false);
  // (the main loop resolves conditions with its first task run, 6 s after the start: the clients come later)
  p.add("cfg minms=16000 maxms=120000");
  static const char* pool[] = {"install", "inst", "stall", "installer", "a", "aa", "ab", "b"};
  std::string level = pool[r.below(8)];
  // users: one that holds the level, one that holds look-alikes only
  std::string other;
  for (int q = 0; q < 2; q++) { std::string l = pool[r.below(8)]; if (l != level && other.find(l) == std::string::npos) other += (other.empty() ? "" : ";") + l; }
  std::string sec0 = "pw" + std::to_string(r.below(1000)), sec1 = "pw" + std::to_string(r.below(1000));
  { std::string line = "admin," + sec0 + "," + level + (r.chance(0.3) ? ",service" : ""); p.add("acl l=" + hx(line)); p.add("user name=admin secret=" + sec0 + " levels=" + level); }
  { std::string line = "guest," + sec1; for (size_t i = 0; i <= other.size();) { size_t j = other.find(';', i); if (j == std::string::npos) j = other.size(); if (j > i) line += "," + other.substr(i, j - i); i = j + 1; }
    p.add("acl l=" + hx(line)); p.add("user name=guest secret=" + sec1 + " levels=" + (other.empty() ? "-" : other)); }
  std::string deflv;
  if (r.chance(0.3)) { deflv = r.chance(0.3) ? level : std::string(pool[r.below(8)]); addArg(&p, "--accesslevel=" + deflv); }
  p.add("user name=* secret=- levels=" + (deflv.empty() ? "-" : deflv));
  // the referenced message and the two variants; which one comes first in the file and which one is active are seeded
  bool protFirst = r.chance(0.5), protActive = r.chance(0.65);
  uint8_t sb = static_cast<uint8_t>(0x09 + r.below(3));
  char buf[300];
  snprintf(buf, sizeof(buf), "r,heat,variant,,,08,b5%02x,0d00,value,,UCH", sb);
  p.add("csv l=" + hx(buf));
  p.add("csv l=" + hx("*[va],heat,variant,,,,1"));
  p.add("csv l=" + hx(r.chance(0.5) ? "*[vb],heat,variant,,,,2" : "*[vb],heat,variant,,,,>=2"));
  std::string lopen, lprot;
  snprintf(buf, sizeof(buf), "[va]r,heat,temp,,,08,b5%02x,0d0100,vopen,,UCH", sb); lopen = buf;
  snprintf(buf, sizeof(buf), "[vb]r,heat#%s,temp,,,08,b5%02x,0d0200,vprot,,UCH", level.c_str(), sb); lprot = buf;
  p.add("csv l=" + hx(protFirst ? lprot : lopen));
  p.add("csv l=" + hx(protFirst ? lopen : lprot));
  snprintf(buf, sizeof(buf), "slave zz=0x08 pb=0xb5 sb=0x%02x id=0d00 len=1 gen=const val=%d", sb, protActive ? 2 : 1); p.add(buf);
  snprintf(buf, sizeof(buf), "slave zz=0x08 pb=0xb5 sb=0x%02x id=0d0100 len=1 gen=small", sb); p.add(buf);
  snprintf(buf, sizeof(buf), "slave zz=0x08 pb=0xb5 sb=0x%02x id=0d0200 len=1 gen=small", sb); p.add(buf);
  snprintf(buf, sizeof(buf), "variant level=%s active=%s sb=0x%02x", level.c_str(), protActive ? "prot" : "open", sb); p.add(buf);
  // some more definitions around them
  std::vector<MsgDef> defs = randomDefs(r, 1 + static_cast<int>(r.below(3)), {level}, false, false);
  for (auto& m : defs) { if (m.write) continue; emitMsg(&p, m); }
  // client 0 holds the level and fills the cache early
  int cid = 0;
  p.add("client id=0 at=" + std::to_string(8000 + r.below(300)));
  addCmd(&p, r, 0, "auth admin " + sec0, "tag=auth user=admin secret=" + sec0);
  addCmd(&p, r, 0, "read -f -c heat variant", "tag=variant kind=refread");
  addCmd(&p, r, 0, "read -f -v -c heat temp", "tag=variant kind=readforce");
  if (r.chance(0.5)) addCmd(&p, r, 0, "find -v -d temp", "tag=variant kind=find");
  cid++;
  int nclients = 1 + static_cast<int>(r.below(3));
  int n = tier == "thorough" ? 5 + static_cast<int>(r.below(10)) : 3 + static_cast<int>(r.below(5));
  for (int c = 0; c < nclients; c++) {
    int who = static_cast<int>(r.below(4));   // 0: nobody, 1: guest, 2: admin, 3: guest with wrong secret
    if (r.chance(0.25)) {
      // HTTP: one request per connection
      for (int k = 0; k < 2; k++) {
        p.add("client id=" + std::to_string(cid) + " http=1 at=" + std::to_string(9500 + r.below(3000)));
        std::string q = r.chance(0.6) ? "verbose" : "";
        std::string uname = "-", secret = "-";
        if (who == 1) { uname = "guest"; secret = sec1; } else if (who == 2) { uname = "admin"; secret = sec0; } else if (who == 3) { uname = "admin"; secret = "wrong"; }
        if (uname != "-") q += (q.empty() ? "" : "&") + std::string("user=") + uname + "&secret=" + secret;
        if (r.chance(0.3)) q += (q.empty() ? "" : "&") + std::string("exact");
        static const char* uris[] = {"/data/heat/temp", "/data/heat", "/data", "/data/heat/tem"};
        std::string req = std::string("GET ") + uris[r.below(4)] + (q.empty() ? "" : "?" + q) + " HTTP/1.1\r\n\r\n";
        addCmd(&p, r, cid, req, "tag=variant kind=http user=" + uname + " secret=" + secret, false);
        cid++;
      }
      continue;
    }
    p.add("client id=" + std::to_string(cid) + " at=" + std::to_string(9000 + r.below(2500)));
    if (who == 1) addCmd(&p, r, cid, "auth guest " + sec1, "tag=auth user=guest secret=" + sec1);
    else if (who == 2) addCmd(&p, r, cid, "auth admin " + sec0, "tag=auth user=admin secret=" + sec0);
    else if (who == 3) addCmd(&p, r, cid, "auth admin wrong", "tag=auth user=admin secret=wrong");
    if (r.chance(0.3)) {
      // a listening connection: updates are pushed to it as long as it lives
      addCmd(&p, r, cid, r.chance(0.7) ? "listen -v" : "listen -V", "tag=variant kind=listen");
      p.add("cmd client=" + std::to_string(cid) + " text=" + hx("listen stop") + " gap=100 think=" + std::to_string(5000 + r.below(2000)) + " pipe=0 crlf=0 tag=none");
      cid++;
      continue;
    }
    for (int k = 0; k < n; k++) {
      int what = static_cast<int>(r.below(10));
      if (what < 2) addCmd(&p, r, cid, "read -f -c heat variant", "tag=variant kind=refread");
      else if (what < 5) addCmd(&p, r, cid, std::string("read -f ") + (r.chance(0.8) ? "-v " : "-V ") + (r.chance(0.7) ? "-c heat " : "") + "temp", "tag=variant kind=readforce");
      else if (what < 7) addCmd(&p, r, cid, std::string("read ") + (r.chance(0.5) ? "-m 86400 " : "") + "-v -c heat temp", "tag=variant kind=read");
      else if (what < 9) addCmd(&p, r, cid, std::string("find -v -d ") + (r.chance(0.5) ? "-c heat " : "") + (r.chance(0.7) ? "temp" : ""), "tag=variant kind=find");
      else addCmd(&p, r, cid, std::string("find -v ") + (r.chance(0.5) ? "-r " : "") + "temp", "tag=variant kind=find");
    }
    cid++;
  }
  // the holder of the level keeps the protected value fresh while the others are connected
  p.add("client id=" + std::to_string(cid) + " at=" + std::to_string(10000 + r.below(1500)));
  addCmd(&p, r, cid, "auth admin " + sec0, "tag=auth user=admin secret=" + sec0);
  for (int k = 0; k < 3; k++) p.add("cmd client=" + std::to_string(cid) + " text=" + hx("read -f -v -c heat temp") + " gap=100 think=" + std::to_string(600 + r.below(900)) + " pipe=0 crlf=0 tag=variant kind=readforce");
  for (int i = 0; i < 60; i++) p.add("react ack1=A resp1=G");
  return p;
}

// ---- c17d: polling through the whole daemon while clients keep asking for a poll priority ----
static plan::Plan genC17d(uint64_t seed, const std::string& tier) {
  (void)tier;
  Rng r(seed);
  plan::Plan p;
  addCommonCfg(&p, r, seed, "c17d", false);
  addArg(&p, "--pollinterval=1");
  p.add("cfg minms=72000 maxms=200000 maxsteps=8000000");
  int nm = 2 + static_cast<int>(r.below(3));
  std::vector<MsgDef> defs;
  for (int i = 0; i < nm; i++) {
    MsgDef m;
    m.circuit = "cir"; m.name = "p" + std::to_string(i); m.zz = 0x08; m.pb = 0xb5; m.sb = 0x09;
    m.id = {0x0d, static_cast<uint8_t>(0x30 + i), 0x00};
    m.fields = {static_cast<int>(r.below(3))};
    m.poll = i == nm - 1 && r.chance(0.5) ? 0 : 1 + static_cast<int>(r.below(3));   // the last one may get its priority from a client only
    emitMsg(&p, m);
    defs.push_back(m);
  }
  // clients that ask again and again for the priority a message has already (or give the one without priority its first one)
  int nclients = 1 + static_cast<int>(r.below(2));
  for (int c = 0; c < nclients; c++) {
    p.add("client id=" + std::to_string(c) + " at=" + std::to_string(1500 + r.below(2000)));
    const MsgDef& m = defs[r.chance(0.6) ? defs.size() - 1 : r.below(static_cast<uint32_t>(defs.size()))];
    int prio = m.poll ? m.poll : 1 + static_cast<int>(r.below(3));
    int period = 400 + static_cast<int>(r.below(1400));
    int n = 66000 / period;
    if (n > 90) n = 90;
    for (int k = 0; k < n; k++)
      p.add("cmd client=" + std::to_string(c) + " text=" + hx("read -p " + std::to_string(prio) + " -m 300 -c cir " + m.name) + " gap=100 think=" + std::to_string(period) + " pipe=0 crlf=0 tag=pollask msg=" + m.name + " prio=" + std::to_string(prio));
  }
  for (int i = 0; i < 200; i++) p.add("react ack1=A resp1=G");
  return p;
}

// ---- c12n: two conditional definitions of one name in two circuits, in both file orders, looked up without circuit ----
static plan::Plan genC12n(uint64_t seed, const std::string& tier) {
  (void)tier;
  Rng r(seed);
  plan::Plan p;
  addCommonCfg(&p, r, seed, "c12n", false);
  p.add("cfg minms=12000 maxms=120000");
  uint8_t sb = static_cast<uint8_t>(0x09 + r.below(3));
  char buf[200];
  snprintf(buf, sizeof(buf), "r,ref,seen,,,08,b5%02x,0d00,v,,UCH", sb); p.add("csv l=" + hx(buf));
  p.add("csv l=" + hx(r.chance(0.5) ? "*[c],ref,seen" : "*[c],ref,seen,,,,>=0"));
  snprintf(buf, sizeof(buf), "slave zz=0x08 pb=0xb5 sb=0x%02x id=0d00 len=1 gen=small", sb); p.add(buf);
  static const char* circuits[][2] = {{"hca", "hcb"}, {"a", "b"}, {"boiler", "heat"}, {"hc1", "hc2"}};
  const char* const* cc = circuits[r.below(4)];
  static const char* names[] = {"flowtemp", "rettemp"};
  bool swap = r.chance(0.5);
  for (int n = 0; n < 2; n++) {
    // the first name: smaller circuit first; the second name: larger circuit first (or the other way round)
    bool smallFirst = (n == 0) != swap;
    std::string la, lb;
    snprintf(buf, sizeof(buf), "[c]r,%s,%s,,,08,b5%02x,0d%02x00,v,,UCH", cc[0], names[n], sb, 0x10 + n); la = buf;
    snprintf(buf, sizeof(buf), "[c]r,%s,%s,,,15,b5%02x,0d%02x00,v,,UCH", cc[1], names[n], sb, 0x20 + n); lb = buf;
    p.add("csv l=" + hx(smallFirst ? la : lb));
    p.add("csv l=" + hx(smallFirst ? lb : la));
    snprintf(buf, sizeof(buf), "slave zz=0x08 pb=0xb5 sb=0x%02x id=0d%02x00 len=1 gen=small", sb, 0x10 + n); p.add(buf);
    snprintf(buf, sizeof(buf), "slave zz=0x15 pb=0xb5 sb=0x%02x id=0d%02x00 len=1 gen=small", sb, 0x20 + n); p.add(buf);
    snprintf(buf, sizeof(buf), "lookup name=%s a=0d%02x00 b=0d%02x00", names[n], 0x10 + n, 0x20 + n); p.add(buf);
  }
  // (the main loop resolves conditions with its first task run, 6 s after the start)
  p.add("client id=0 at=" + std::to_string(8000 + r.below(500)));
  addCmd(&p, r, 0, "read -f -c ref seen", "tag=none");
  int k = 2 + static_cast<int>(r.below(3));
  for (int i = 0; i < k; i++) for (int n = 0; n < 2; n++) addCmd(&p, r, 0, std::string("read -f ") + names[(n + i) % 2], std::string("tag=namelookup name=") + names[(n + i) % 2]);
  for (int i = 0; i < 40; i++) p.add("react ack1=A resp1=G");
  return p;
}

// ---- c18m: MQTT topics built from a seeded template arrive with /get, /set, /list ----
static plan::Plan genC18m(uint64_t seed, const std::string& tier) {
  Rng r(seed);
  plan::Plan p;
  addCommonCfg(&p, r, seed, "c18m", false);
  static const char* leads[] = {"ebusd/", "e/b/", "", "x_", "eBUS/", "Home/Heating/"};
  // (constants that start with a digit end the variable name in front of them; digits that no identifier of the run contains,
  //  otherwise the topic would not be uniquely decodable)
  static const char* seps[] = {"/", "/x/", "-", "/s/", "/Val/", "9x/", "7/"};
  static const char* trails[] = {"", "/state", "/s/t", "-val", ".t", "/State", "9", "7th/s"};
  // a template with %name, optionally %circuit and %field, in a seeded order
  std::vector<std::string> fields = {"%name"};
  if (r.chance(0.8)) fields.push_back("%circuit");
  if (r.chance(0.5)) fields.push_back("%field");
  for (size_t i = fields.size(); i > 1; i--) std::swap(fields[i - 1], fields[r.below(static_cast<uint32_t>(i))]);
  std::string tmpl = leads[r.below(6)];
  for (size_t i = 0; i < fields.size(); i++) { if (i) tmpl += seps[r.below(7)]; tmpl += fields[i]; }
  tmpl += trails[r.below(8)];
  addArg(&p, "--mqttport=1883");
  // without %circuit ebusd appends "/%circuit" unless the option ends with '#'
  addArg(&p, "--mqtttopic=" + tmpl + (tmpl.find("%circuit") == std::string::npos ? "#" : ""));
  p.add("mqttcfg template=" + hx(tmpl));
  static const char* circuits[] = {"cir", "boiler", "bai", "hc1", "b"};
  static const char* names[] = {"flow", "flowtemp", "temp", "m0", "status", "ab", "a", "t2", "state", "val"};
  std::vector<MsgDef> defs = randomDefs(r, 2 + static_cast<int>(r.below(4)), {}, false, false);
  size_t nameBase = r.below(10);
  for (size_t i = 0; i < defs.size(); i++) {
    defs[i].circuit = circuits[r.below(5)];
    defs[i].name = names[(nameBase + i) % 10];
    emitMsg(&p, defs[i]);
  }
  auto build = [&tmpl](const MsgDef& m, const std::string& field) {
    std::string t = tmpl;
    auto rep = [&t](const std::string& k, const std::string& v) { size_t q = t.find(k); if (q != std::string::npos) t.replace(q, k.size(), v); };
    rep("%circuit", m.circuit); rep("%name", m.name); rep("%field", field);
    return t;
  };
  int n = tier == "thorough" ? 4 + static_cast<int>(r.below(8)) : 2 + static_cast<int>(r.below(5));
  int64_t t = 1300 + static_cast<int64_t>(r.below(500));
  for (int k = 0; k < n; k++) {
    const MsgDef& m = defs[r.below(static_cast<uint32_t>(defs.size()))];
    std::string field = "f" + std::to_string(r.below(static_cast<uint32_t>(m.fields.size())));
    std::string dir = m.write ? "set" : (r.chance(0.8) ? "get" : "list");
    std::string data, enc;
    if (m.write) for (size_t f = 0; f < m.fields.size(); f++) { std::string e; std::string v = randomValueFor(r, m.fields[f], &e); data += (f ? ";" : "") + v; enc += e; }
    std::string topic = build(m, field);
    std::string extra;
    // topics that end inside the template: without the trailing field part (get), or with the circuit only (list)
    size_t ic = tmpl.find("%circuit"), in = tmpl.find("%name"), iff = tmpl.find("%field");
    auto buildPrefix = [&](size_t upto) { std::string saved = tmpl; tmpl = tmpl.substr(0, upto); std::string t2 = build(m, field); tmpl = saved; return t2; };
    if (dir == "get" && iff != std::string::npos && iff > in && (ic == std::string::npos || iff > ic) && r.chance(0.3)) {
      size_t prevEnd = std::max(in + 5, ic == std::string::npos ? 0 : ic + 8);
      topic = buildPrefix(prevEnd);
      extra = " partial=1";
    } else if (!m.write && ic != std::string::npos && ic < in && (iff == std::string::npos || ic < iff) && r.chance(0.25)) {
      dir = "list";
      topic = buildPrefix(ic + 8);
      extra = " partial=1 listcircuit=" + m.circuit;
    }
    p.add("mqtt at=" + std::to_string(t) + " topic=" + hx(topic + "/" + dir) + " data=" + hx(data) + " msg=" + m.name + " dir=" + dir + (enc.empty() ? "" : " enc=" + enc) + extra);
    t += 1500 + static_cast<int64_t>(r.below(800));
  }
  p.add("cfg minms=" + std::to_string(t + 500) + " maxms=" + std::to_string(t + 60000));
  for (int i = 0; i < 10; i++) p.add("react ack1=A resp1=G");
  return p;
}

// ---- c20s: enhanced adapter, foreign traffic, and the bus thread stalled around the arbitration of client requests ----
// (late adapter answers then reach a protocol handler that has moved on; a request that gets lost blocks its client for good)
static plan::Plan genC20s(uint64_t seed, const std::string& tier) {
  Rng r(seed);
  plan::Plan p;
  addCommonCfg(&p, r, seed, "c20s", false);
  p.add("cfg enhanced=1 minms=400 maxms=120000");
  addArg(&p, "--pollinterval=2");
  std::vector<MsgDef> defs = randomDefs(r, 3, {}, false, true);
  for (auto& m : defs) emitMsg(&p, m);
  MsgDef probe;
  probe.circuit = "probe"; probe.name = "value"; probe.zz = 0x25; probe.sb = 0x0c; probe.id = {0x7e, 0x01}; probe.fields = {2};
  emitMsg(&p, probe);
  int n = tier == "thorough" ? 6 + static_cast<int>(r.below(10)) : 3 + static_cast<int>(r.below(6));
  int at = 300 + static_cast<int>(r.below(300));
  p.add("client id=0 at=" + std::to_string(at));
  for (int k = 0; k < n; k++) {
    const MsgDef& m = defs[r.below(static_cast<uint32_t>(defs.size()))];
    if (m.write) addCmd(&p, r, 0, "read -f -c probe value", "tag=read msg=value force=1 prop=C20 tolerant=1");
    else addCmd(&p, r, 0, "read -f -c " + m.circuit + " " + m.name, "tag=read msg=" + m.name + " force=1 prop=C20 tolerant=1");
  }
  addCmd(&p, r, 0, "read -f -c probe value", "tag=read msg=value force=1 prop=C20 tolerant=1");
  // foreign telegrams all the time
  int nt = 8 + static_cast<int>(r.below(20));
  for (int i = 0; i < nt; i++) {
    static const uint8_t masters[] = {0x00, 0x03, 0x10, 0x13, 0x17, 0x33, 0x37, 0x70, 0x71, 0xf1};
    int nn = static_cast<int>(r.below(6));
    Bytes master = {masters[r.below(10)], 0xfe, 0xb5, static_cast<uint8_t>(0x40 + r.below(8)), static_cast<uint8_t>(nn)};
    if (master[0] == 0x31) master[0] = 0x10;
    for (int q = 0; q < nn; q++) master.push_back(static_cast<uint8_t>(r.below(256)));
    std::vector<simbus::Step> st;
    for (uint8_t b : ref::renderMasterPart(master)) { simbus::Step s2; s2.who = 'M'; s2.b = b; st.push_back(s2); }
    simbus::Step e; e.who = 'M'; e.b = ref::SYN; st.push_back(e);
    p.add("bus script idle=" + std::to_string(r.below(3)) + " note=foreign steps=" + simbus::stepsToText(st));
  }
  int ns = 3 + static_cast<int>(r.below(6));
  for (int i = 0; i < ns; i++) {
    char buf[120];
    snprintf(buf, sizeof(buf), "fault stall at=%d thread=bushandler ms=%d", at + static_cast<int>(r.below(static_cast<uint32_t>(n * 250 + 200))), 40 + static_cast<int>(r.below(280)));
    p.add(buf);
  }
  for (int i = 0; i < 30; i++) p.add("react ack1=A resp1=G");
  return p;
}

// ---- c20: garbage on every untrusted interface, then a valid probe ----
static std::string garbage(Rng& r, int maxLen, bool printable) {
  std::string s;
  int n = 1 + static_cast<int>(r.below(static_cast<uint32_t>(maxLen)));
  for (int i = 0; i < n; i++) {
    char ch = printable ? static_cast<char>(0x20 + r.below(95)) : static_cast<char>(r.below(256));
    if (ch == '\n') ch = ' ';
    s += ch;
  }
  return s;
}

// a definition line that is structurally plausible: type column with condition references, known and new names, odd field lists
static std::string hostileDef(Rng& r, const std::vector<MsgDef>& defs, bool conditionLine) {
  static const char* conds[] = {"c1", "c2", "c3"};
  if (conditionLine) {
    // condition definitions in both spellings, referencing existing messages
    const MsgDef& m = defs[r.below(static_cast<uint32_t>(defs.size()))];
    static const char* vals[] = {"1;2", ">=3", "<5", "1-9", "'abc'", "", "=", ">", "0;;1", "-1", "99999999999"};
    std::string l = std::string(r.chance(0.5) ? "*[" : "[") + conds[r.below(3)] + "]," + m.circuit + "," + m.name + ",," + (r.chance(0.3) ? "f0" : "") + ",," + vals[r.below(11)];
    return l;
  }
  static const char* types[] = {"r", "w", "u", "r3", "uw", "[c1]r", "[c1]", "[c1][c2]", "[c1][c2]r", "[c2][c1]w", "[c1=1]", "[c1=1]r", "[c2>=3]", "[c1][c2=5]", "[c1][c2][c3]", "[c3]", "*r", "*w", "*[c1]", "*[c1][c2]",
                                "[", "[]", "[]r", "[c9]r", "[c1", "[c1]]", "[[c1]]", "[c1][", "r;w", "[c1]r;[c2]w", "!include", "!load"};
  static const char* tails[] = {",,,08,b509,0d%02x,,,UCH", ",,,08,b509,0d%02x,v,s,UIN,10,,", ",,,fe,b516,%02x,,,HEX:*", ",,,08,b509,0d%02x,a,,UCH,,,,b,,STR:*", ",,,08,b509,0d%02x01:4;0d%02x02:3,,,STR:7",
                                ",,,08;15,b509,0d%02x,,,D2C", ",,,,,,", ",,,08,b509,0d%02x,,,UCH,0=off;1=on", ",,,08,b5,0d%02x,,,UCH", ",,,zz,b509,0d%02x,,,UCH", ",,,08,b509,0d%02x,,,BI0:9", ",,31,08,b509,0d%02x,,m,ULG"};
  if (r.chance(0.15)) {
    // several destinations in one line, the first of them colliding with a loaded definition (same ZZ, PBSB, ID)
    const MsgDef& m = defs[r.below(static_cast<uint32_t>(defs.size()))];
    char b2[160];
    snprintf(b2, sizeof(b2), "%s,%s,n%u,,,%02x;%02x%s,%02x%02x,%s,,,UCH", m.write ? "w" : "r", r.chance(0.5) ? m.circuit.c_str() : "x", r.below(3), m.zz, m.zz == 0x08 ? 0x15 : 0x08,
             r.chance(0.3) ? ";52" : "", m.pb, m.sb, ref::hex(m.id).c_str());
    return b2;
  }
  std::string type = types[r.below(32)];
  std::string circuit, name;
  if (r.chance(0.6)) { const MsgDef& m = defs[r.below(static_cast<uint32_t>(defs.size()))]; circuit = m.circuit; name = m.name; if (r.chance(0.5) && type.back() != 'w') type = type == "w" ? "w" : type; }
  else { circuit = r.chance(0.5) ? "cir" : (r.chance(0.5) ? "x" : ""); name = "n" + std::to_string(r.below(3)); }
  char buf[200];
  unsigned a = r.below(256);
  snprintf(buf, sizeof(buf), tails[r.below(12)], a, a);
  return type + "," + circuit + "," + name + buf;
}

static plan::Plan genC20(uint64_t seed, const std::string& tier) {
  Rng r(seed);
  plan::Plan p;
  addCommonCfg(&p, r, seed, "c20", true);
  addArg(&p, "--enablehex");
  addArg(&p, "--enabledefine");
  addArg(&p, "--pollinterval=2");
  if (r.chance(0.4)) addArg(&p, "--answer");
  p.add("cfg minms=400 maxms=240000 maxsteps=6000000");
  std::vector<MsgDef> defs = randomDefs(r, 4, {}, true, true);
  for (auto& m : defs) emitMsg(&p, m);
  // a known read message for the final probe
  MsgDef probe;
  probe.circuit = "probe"; probe.name = "value"; probe.zz = 0x25; probe.sb = 0x0c; probe.id = {0x7e, 0x01}; probe.fields = {2};
  emitMsg(&p, probe);
  // definition text read at start-up after the regular file: conditions first, then lines that refer to them
  if (r.chance(0.5)) {
    int nc = static_cast<int>(r.below(4)), nl = 1 + static_cast<int>(r.below(6));
    for (int i = 0; i < nc; i++) p.add("csvz l=" + hx(hostileDef(r, defs, true)));
    for (int i = 0; i < nl; i++) p.add("csvz l=" + hx(r.chance(0.9) ? hostileDef(r, defs, false) : garbage(r, 60, true)));
  }
  static const char* verbs[] = {"read", "write", "find", "define", "decode", "encode", "hex", "inject", "answer", "listen", "state", "info", "grab", "scan", "log", "reload", "help", "auth", "direct", "r", "w", "f", "e", "d"};
  static const char* frags[] = {"-f", "-c", "-h", "-def", "-V", "-VV", "-v", "-n", "-N", "-i", "-s", "-d", "-p", "-m", "08b509030d0000", "cir", "m0", "*", "?", "--help", "\"", "'",
                                "r,c,n,,,08,b509,0d00,,,UCH", "w,c,n,,,08,b509,0e00,,,STR:99", "r,,,,,,,,,,", "[x]r,c,n,,,08,b509,0d,,,UCH", "UCH", "STR:*", "HEX:*", "BI0:9", "D2C,-10", "UCH,0=a;1=b",
                                "ff", "feb5160301", "3108b509030d0000/0101", "result", "all", "stop", "9999999999", "-1", "0x", ";;;;", ",,,,,,,,,,,,,,,,,,,,,,,,,,,", "%s%s%n", "\t"};
  int nclients = 1 + static_cast<int>(r.below(3));
  int n = tier == "thorough" ? 15 + static_cast<int>(r.below(50)) : 8 + static_cast<int>(r.below(25));
  int clientId = 0;
  for (int cl = 0; cl < nclients; cl++) {
    p.add("client id=" + std::to_string(clientId) + " at=" + std::to_string(300 + r.below(300)));
    for (int k = 0; k < n; k++) {
      std::string line;
      int mode = static_cast<int>(r.below(15));
      if (mode >= 13) {
        // well-formed commands with degenerate arguments: truncated hex telegrams on every hex path, the grab buffer decoded
        // (it holds whatever was seen on the bus so far, incl. telegrams with 0..3 data bytes), prefixes of hex telegrams
        static const char* structured[] = {"grab result all decode", "grab result decode", "grab result all", "grab result", "grab", "grab stop", "grab all",
                                           "read -h 08b5", "read -h 08", "read -h 08b509", "read -h 08b50900", "read -h 08b50901", "read -h 08b509ff0d", "read -h", "read -f -h 08b5090",
                                           "write -h 08", "write -h 08b5", "write -h 08b509", "write -h 08b5090201", "write -h fe", "hex 08b5", "hex 08", "hex", "hex 08b50903", "hex fe070400",
                                           "read -def r,c,n,,,08,b509,0d00,,,UCH", "read -def -f r,c,n,,,08,b509,,,,UCH", "read -def", "decode UIN 01", "decode ULG 0102", "decode BTI 01", "decode HDA:3 01",
                                           "inject 1008b5", "inject 10", "inject 10feb5160101/", "inject /00", "answer", "answer 10", "find -i", "find -i 0", "find -i zz", "find -F", "find -F name,zz",
                                           "read -s", "read -s zz m0", "read -d", "read -d 1 m0", "read -p", "read -p x m0", "read -m", "read -m -1 m0", "read -i", "read -i 1;2;3;4;5;6;7;8;9 -c cir m0"};
        addCmd(&p, r, clientId, structured[r.below(sizeof(structured) / sizeof(structured[0]))], "tag=none");
        continue;
      }
      if (mode >= 10) {
        // define (also replacing a loaded definition), then use what was defined
        bool cond = r.chance(0.25);
        std::string def = hostileDef(r, defs, cond);
        addCmd(&p, r, clientId, std::string("define ") + (r.chance(0.5) ? "-r " : "") + def, "tag=none");
        std::vector<std::string> cols;
        size_t from = 0;
        for (int q = 0; q < 3; q++) { size_t c2 = def.find(',', from); if (c2 == std::string::npos) break; cols.push_back(def.substr(from, c2 - from)); from = c2 + 1; }
        if (!cond && cols.size() == 3 && !cols[2].empty()) {
          if (r.chance(0.7)) addCmd(&p, r, clientId, "read " + std::string(r.chance(0.5) ? "-f " : "") + (cols[1].empty() ? "" : "-c " + cols[1] + " ") + cols[2], "tag=none");
          if (r.chance(0.5)) addCmd(&p, r, clientId, std::string("find ") + (r.chance(0.5) ? "-d " : "-f ") + cols[2], "tag=none");
          k += 2;
        }
        continue;
      }
      if (mode < 6) {
        line = verbs[r.below(sizeof(verbs) / sizeof(verbs[0]))];
        int na = static_cast<int>(r.below(6));
        for (int a = 0; a < na; a++) line += std::string(" ") + (r.chance(0.8) ? std::string(frags[r.below(sizeof(frags) / sizeof(frags[0]))]) : garbage(r, 12, true));
      } else if (mode < 8) {
        line = garbage(r, 120, true);
      } else {
        line = garbage(r, 60, false);
        for (char& ch : line) if (ch == '\r' || ch == 0) ch = '.';
      }
      // commands that switch the connection into another protocol mode would make the response framing differ
      std::string lower = line;
      lower.erase(0, lower.find_first_not_of(" \t"));   // leading blanks do not count (" q" is the quit command as well)
      std::transform(lower.begin(), lower.end(), lower.begin(), ::tolower);
      if (lower.compare(0, 6, "listen") == 0 || lower.compare(0, 2, "l ") == 0 || lower == "l" || lower.compare(0, 6, "direct") == 0 || lower.compare(0, 4, "quit") == 0 || lower == "q" || lower.compare(0, 2, "q ") == 0 ||
          lower.compare(0, 4, "scan") == 0 || lower.compare(0, 6, "reload") == 0 || lower.compare(0, 3, "log") == 0 || lower.compare(0, 3, "raw") == 0 || lower.compare(0, 4, "dump") == 0) line = "state";
      addCmd(&p, r, clientId, line, "tag=none");
    }
    // after the garbage: a valid probe must still be answered correctly
    addCmd(&p, r, clientId, "encode UIN 4660", "tag=expect prop=C20 cls=wrong-result-after-garbage sig=encode expect=" + hx("3412"));
    addCmd(&p, r, clientId, "read -f -c probe value", "tag=read msg=value force=1 prop=C20");
    clientId++;
  }
  // clients that give up: connect and close, close in the middle of a line, close before the answer to a command that
  // goes to the bus has come back
  int na = static_cast<int>(r.below(4));
  for (int k = 0; k < na; k++) {
    p.add("client id=" + std::to_string(clientId) + (r.chance(0.2) ? " http=1" : "") + " at=" + std::to_string(300 + r.below(2500)));
    static const char* cmds[] = {"read -f -c probe value", "read -f -c cir m0", "write -c cir m1 1", "find -d", "state", "GET /data HTTP/1.1\r\n\r\n", "define -r r,cir,m0,,,08,b509,0d1000,,,UCH"};
    std::string text = cmds[r.below(7)];
    size_t cut = r.chance(0.5) ? text.size() + 1 : r.below(static_cast<uint32_t>(text.size() + 1));
    addCmd(&p, r, clientId, text, "tag=noreply abort=" + std::to_string(cut) + " abortwait=" + std::to_string(r.below(60000)), false);
    clientId++;
  }
  // HTTP garbage
  int nh = static_cast<int>(r.below(6));
  for (int k = 0; k < nh; k++) {
    p.add("client id=" + std::to_string(clientId) + " http=1 at=" + std::to_string(300 + r.below(2000)));
    std::string req;
    int mode = static_cast<int>(r.below(4));
    if (mode == 0) req = "GET " + garbage(r, 80, true) + " HTTP/1.1\r\n\r\n";
    else if (mode == 1) req = garbage(r, 40, true) + "\r\n\r\n";
    else if (mode == 2) req = "GET /data/" + garbage(r, 20, true) + "?" + std::string(frags[r.below(sizeof(frags) / sizeof(frags[0]))]) + "=" + garbage(r, 30, true) + " HTTP/1.0\r\n\r\n";
    else req = "GET /decode?def=" + std::string(frags[r.below(sizeof(frags) / sizeof(frags[0]))]) + "&raw=" + garbage(r, 10, true) + " HTTP/1.1\r\n\r\n";
    for (char& ch : req) if (ch == '\n' && (&ch == &req[0] || *(&ch - 1) != '\r')) ch = ' ';
    addCmd(&p, r, clientId, req, "tag=none", false);
    clientId++;
  }
  // garbage on the bus
  int nb = 3 + static_cast<int>(r.below(12));
  for (int i = 0; i < nb; i++) {
    std::vector<simbus::Step> st;
    int len = 1 + static_cast<int>(r.below(40));
    for (int q = 0; q < len; q++) { simbus::Step s; s.who = 'N'; s.b = static_cast<uint8_t>(r.chance(0.2) ? 0xaa : r.below(256)); st.push_back(s); }
    p.add("bus script idle=" + std::to_string(r.below(3)) + " note=garbage steps=" + simbus::stepsToText(st));
  }
  // well-formed foreign telegrams with 0..3 data bytes (they end up in the grab buffer)
  int nv = static_cast<int>(r.below(5));
  for (int i = 0; i < nv; i++) {
    int nn = static_cast<int>(r.below(4));
    Bytes master = {static_cast<uint8_t>(r.chance(0.5) ? 0x10 : 0x03), 0xfe, static_cast<uint8_t>(r.chance(0.5) ? 0xb5 : 0x07), static_cast<uint8_t>(r.below(256)), static_cast<uint8_t>(nn)};
    for (int q = 0; q < nn; q++) master.push_back(static_cast<uint8_t>(r.below(256)));
    std::vector<simbus::Step> st;
    for (uint8_t b : ref::renderMasterPart(master)) { simbus::Step s2; s2.who = 'M'; s2.b = b; st.push_back(s2); }
    simbus::Step e; e.who = 'M'; e.b = ref::SYN; st.push_back(e);
    p.add("bus script idle=" + std::to_string(r.below(3)) + " note=short steps=" + simbus::stepsToText(st));
  }
  for (int i = 0; i < 20; i++) p.add("react ack1=A resp1=G");
  return p;
}

struct Reg {
  Reg() {
    hz::registerFamily(hz::Family{"c18t", "l3", genC18t, "TCP command lines over {a,b,blank,quotes}: argument vector seen by the interpreter"});
    hz::registerFamily(hz::Family{"c12", "l3", genC12, "codec probes after hostile command histories, errno clobbered by the kernel"});
    hz::registerFamily(hz::Family{"c12o", "l3", genC12o, "definitions loaded in a seeded order, passive update telegrams, cached reads"});
    hz::registerFamily(hz::Family{"c18m", "l3", genC18m, "MQTT topics built from a seeded template for (circuit, name, field) arriving with /get /set /list"});
    hz::registerFamily(hz::Family{"c18h", "l3", genC18h, "HTTP request URIs: percent decoding exactly once, html root confinement"});
    hz::registerFamily(hz::Family{"c09", "l3", genC09, "client reads/writes through main loop, bus handler and bus incl. chained messages, polls, retries"});
    hz::registerFamily(hz::Family{"c09w", "l3", genC09w, "chained write message: parts with the defined lengths, last part takes the rest"});
    hz::registerFamily(hz::Family{"c09s", "l3", genC09s, "chained read in a slow round: main loop stalled between the parts"});
    hz::registerFamily(hz::Family{"c09f", "l3", genC09f, "reads with master side parameters and selection of one field by name and index"});
    hz::registerFamily(hz::Family{"c16", "l3", genC16, "access levels: interleaved TCP/HTTP sessions, ACL with overlapping level names"});
    hz::registerFamily(hz::Family{"c16v", "l3", genC16v, "access levels: conditional variants of one circuit/name with different levels; cached listings, HTTP /data, listen mode"});
    hz::registerFamily(hz::Family{"c17d", "l3", genC17d, "polling through the whole daemon while clients keep asking for the poll priority a message already has"});
    hz::registerFamily(hz::Family{"c12n", "l3", genC12n, "two conditional definitions of one name in two circuits in both file orders, looked up by name without circuit"});
    hz::registerFamily(hz::Family{"c20s", "l3", genC20s, "enhanced adapter, foreign traffic, bus thread stalled around the arbitration of client requests"});
    hz::registerFamily(hz::Family{"c20", "l3", genC20, "garbage on TCP, HTTP and bus, then valid probes"});
  }
} g_reg;

}  // namespace l3gen
