// simkernel: deterministic simulated kernel for running the real ebusd code.
// Real pthreads are serialised by a baton; clock, fds, locks and condvars are simulated.
// All libc/pthread calls of the code under test arrive here through -Wl,--wrap=<sym>.
#ifndef VERIF_SIMKERNEL_H_
#define VERIF_SIMKERNEL_H_

#include <stdint.h>
#include <stddef.h>
#include <deque>
#include <functional>
#include <map>
#include <string>
#include <vector>

namespace sim {

typedef int64_t ns_t;
constexpr ns_t US = 1000LL, MS = 1000000LL, SEC = 1000000000LL;
constexpr int FD_BASE = 1000;

// ---- deterministic randomness ----
uint64_t mix64(uint64_t x);
inline uint64_t hcomb(uint64_t a, uint64_t b) { return mix64(a ^ (mix64(b) + 0x9e3779b97f4a7c15ULL + (a << 6) + (a >> 2))); }
uint64_t hstr(const char* s);
struct Rng {
  uint64_t s;
  explicit Rng(uint64_t seed = 1) : s(mix64(seed) | 1) {}
  uint64_t next();
  uint32_t below(uint32_t n) { return n <= 1 ? 0 : static_cast<uint32_t>(next() % n); }
  int range(int lo, int hi) { return lo + static_cast<int>(below(static_cast<uint32_t>(hi - lo + 1))); }
  bool chance(double p) { return p > 0 && (next() >> 11) * (1.0 / 9007199254740992.0) < p; }
  template <typename T> const T& pick(const std::vector<T>& v) { return v[below(static_cast<uint32_t>(v.size()))]; }
};

// ---- scheduling policies ----
enum Policy { POL_WALK = 0, POL_PCT = 1, POL_STARVE = 2, POL_SEQ = 3 };

struct KConfig {
  uint64_t seed = 1;            // seeds the S (schedule) and F (fault/latency) streams
  int policy = POL_WALK;
  double switchP = 0.1;         // POL_WALK: probability of a context switch at a yield point
  int pctDepth = 2;             // POL_PCT: number of priority change points
  uint64_t pctSteps = 2000;     // POL_PCT: expected number of decisions
  std::string starveName;       // POL_STARVE: thread name (prefix) that only runs when nothing else can
  ns_t callCost = 2 * US;       // simulated cost of every intercepted call
  double spuriousP = 0;         // probability that a condvar wait wakes spuriously
  double errnoP = 0;            // probability that a successful call leaves errno clobbered
  bool replaySchedule = false;  // take decisions from 'schedule' (modulo), then default policy
  std::vector<int> schedule;
  uint64_t maxSteps = 2000000;  // step budget per run
  ns_t maxTime = 3600 * SEC;    // simulated time budget per run
  int64_t epoch = 1700000000;   // seconds since the Epoch at simulated time 0
  bool verbose = false;         // print trace events to stderr
};

// ---- kernel API for harnesses and worlds ----
void kernelInit(const KConfig& cfg);        // call on the main thread; it becomes sim thread 0
bool kernelActive();
ns_t now();
int64_t epochSeconds();
Rng& frng();                                // the F stream (latencies, chunking, rate based faults)
int threadSpawn(const char* name, std::function<void()> fn);
void threadJoin(int tid);
int currentTid();
const char* currentThreadName();
void sleepFor(ns_t d);
// block the calling sim thread until pred() or the absolute deadline (<0: none); returns pred()
bool blockUntil(const std::function<bool()>& pred, ns_t deadline, const char* why);
void yieldPoint(const char* why);           // explicit yield (costs callCost)
uint64_t eventAt(ns_t t, std::function<void()> f);   // environment event, runs inside the scheduler
uint64_t eventAfter(ns_t d, std::function<void()> f);
void eventCancel(uint64_t id);
void stallThread(const char* namePrefix, ns_t d);    // fault: matching threads are not scheduled for d
void trace(const char* tag, uint64_t a = 0, uint64_t b = 0);  // folded into the trace hash
void tracef(const char* tag, const char* fmt, ...) __attribute__((format(printf, 2, 3)));
uint64_t traceHash();
uint64_t steps();
uint64_t contextSwitches();
uint64_t decisions();
const std::vector<int>& recordedSchedule();
void setAbortHandler(std::function<void(const char* verdict, const std::string& detail)> h);
void abortRun(const char* verdict, const std::string& detail);   // does not return
std::string threadDump();
// per-kind counters of faults that actually fired (and other reach probes)
void count(const std::string& name, uint64_t n = 1);
const std::map<std::string, uint64_t>& counters();

// ---- simulated file descriptors ----
struct Stream {
  int fd = -1;
  std::string kind;                 // "tty", "sock", "pipe"
  std::deque<uint8_t> in;           // bytes readable by the code under test
  bool eof = false;                 // peer closed: read returns 0 once 'in' is empty; poll reports POLLIN|POLLRDHUP
  bool hup = false;                 // poll reports POLLHUP
  bool err = false;                 // poll reports POLLERR, read/write fail with EIO
  bool appClosed = false;           // closed by the code under test
  bool rdShutdown = false;
  bool nonblock = false;
  uint64_t nRead = 0, nWrite = 0, nPoll = 0, nIo = 0;   // call counters (for fault enumeration)
  std::function<void(const uint8_t*, size_t)> onWrite;  // bytes written by the code under test
  std::function<void()> onClose;
  std::function<void(const uint8_t*, size_t)> onRead;   // bytes a read() returned to the code under test
  std::function<void(int, ns_t, ns_t)> onPoll;          // a poll on this fd returned (ret, requested timeout, elapsed)
  // how many of 'avail' buffered bytes a read() of 'want' returns (chunking); default: all
  std::function<size_t(size_t avail, size_t want)> readLimit;
  // fault hook, consulted at every I/O call: op is 'r' read, 'w' write, 'p' poll. Return value:
  // 0 none; >0 errno to fail the call with; -1 (read) return 0 bytes / (write) short write of 0 / (poll) early return 0;
  // -2 (poll) report POLLHUP; -3 (poll) report POLLERR
  std::function<int(char op, uint64_t ioIndex)> fault;
  Stream* peer = nullptr;           // for pipes
};
Stream* streamNew(const char* kind);     // allocates an fd >= FD_BASE
Stream* streamGet(int fd);
void streamFeed(Stream* s, const uint8_t* data, size_t len);   // environment -> code under test
void streamFeed(Stream* s, const std::string& data);

struct Listener {
  int fd = -1;
  int port = 0;
  bool listening = false;
  std::deque<Stream*> pending;
};
Listener* listenerByPort(int port);
// environment side: connect to a listening port; returns the server side stream (to be accepted) or nullptr
Stream* netConnect(int port);

bool isSimFd(int fd);

}  // namespace sim

#endif  // VERIF_SIMKERNEL_H_
