// L3 harness: everything of ebusd except main(): MessageMap, ScanHelper, BusHandler, protocol stack, MainLoop,
// Network, Connection, RequestImpl, UserList (and MqttHandler over the broker stub) on the simulated kernel.
#include "h_l3.h"

#include <dirent.h>
#include <fcntl.h>
#include <stdio.h>
#include <stdlib.h>
#include <string.h>
#include <sys/stat.h>
#include <unistd.h>

#include <fstream>

#include "ebusd/bushandler.h"
#include "ebusd/main.h"
#include "ebusd/mainloop.h"
#include "ebusd/network.h"
#include "ebusd/scan.h"
#include "lib/ebus/device_trans.h"
#include "lib/ebus/protocol_direct.h"
#include "lib/utils/log.h"
#include "mqtt_stub.h"

using namespace ebusd;  // NOLINT

namespace l3 {

using ref::Bytes;
using sim::MS;
using sim::US;
using sim::now;

namespace {

RunData* g_rd = nullptr;
std::string g_scratch;

class SimTransport : public FileTransport {
 public:
  SimTransport(simbus::Port* port, unsigned int extraLatency) : FileTransport("/dev/simtty", extraLatency, false), m_port(port) {}
  string getTransportInfo() const override { return "sim"; }
  result_t openInternal() override {
    int fd = m_port->open();
    if (fd < 0) return RESULT_ERR_NOTFOUND;
    m_fd = fd;
    return RESULT_OK;
  }
 protected:
  void checkDevice() override {}
 private:
  simbus::Port* m_port;
};

void rmTree(const std::string& path) {
  DIR* d = opendir(path.c_str());
  if (d) {
    struct dirent* e;
    while ((e = readdir(d)) != nullptr) {
      if (!strcmp(e->d_name, ".") || !strcmp(e->d_name, "..")) continue;
      std::string c = path + "/" + e->d_name;
      struct stat st;
      if (lstat(c.c_str(), &st) == 0 && S_ISDIR(st.st_mode)) rmTree(c); else unlink(c.c_str());
    }
    closedir(d);
  }
  rmdir(path.c_str());
}

void writeFile(const std::string& path, const std::string& data) {
  std::ofstream f(path, std::ios::binary);
  f << data;
  f.close();
  // constant mtime: file times may show up in outputs
  struct timespec ts[2];
  ts[0].tv_sec = 1700000000; ts[0].tv_nsec = 0;
  ts[1] = ts[0];
  utimensat(AT_FDCWD, path.c_str(), ts, 0);
}

std::string unhexText(const std::string& h) {
  Bytes b = ref::unhex(h);
  return std::string(b.begin(), b.end());
}

struct ClientCmd {
  plan::Line line;
  std::string text;            // raw bytes to send (TCP: without the line end, which is appended)
  std::vector<size_t> cuts;    // chunk boundaries
  int64_t gapUs = 200;         // time between chunks
  int64_t thinkMs = 5;         // pause before the command
  bool pipeline = false;       // send the next command without waiting for this response
  std::string lineEnd = "\n";
};

struct Client {
  int id = 0;
  bool http = false;
  int64_t atMs = 0;
  std::vector<ClientCmd> cmds;
  sim::Stream* s = nullptr;
  std::string rx;
  size_t sendIdx = 0, recvIdx = 0;
  bool closed = false, done = false;
  int port = 0;
  std::vector<int> recIdx;     // index into RunData::cmds per command
};

struct World {
  std::vector<Client*> clients;
  simbus::Bus* bus = nullptr;
};
World* g_world = nullptr;

void clientSendNext(Client* c);

void clientCheckResponses(Client* c) {
  for (;;) {
    if (c->recvIdx >= c->sendIdx) return;
    CmdRecord& rec = g_rd->cmds[static_cast<size_t>(c->recIdx[c->recvIdx])];
    size_t used = 0;
    std::string resp;
    if (!c->http) {
      size_t p = c->rx.find("\n\n");
      if (p == std::string::npos) return;
      resp = c->rx.substr(0, p);
      used = p + 2;
    } else {
      size_t h = c->rx.find("\r\n\r\n");
      if (h == std::string::npos) return;
      size_t cl = c->rx.find("Content-Length: ");
      size_t bodyLen = 0;
      if (cl != std::string::npos && cl < h) bodyLen = static_cast<size_t>(atol(c->rx.c_str() + cl + 16));
      if (c->rx.size() < h + 4 + bodyLen) return;
      resp = c->rx.substr(0, h + 4 + bodyLen);
      used = h + 4 + bodyLen;
    }
    c->rx.erase(0, used);
    rec.response = resp;
    rec.doneT = now();
    sim::tracef("client.resp", "%d/%d %zu bytes", c->id, rec.index, resp.size());
    c->recvIdx++;
    if (c->recvIdx >= c->cmds.size()) { c->done = true; return; }
    // the next command was held back until this response arrived
    if (c->sendIdx == c->recvIdx) {
      Client* cc = c;
      sim::eventAfter(c->cmds[c->sendIdx].thinkMs * MS, [cc]() { clientSendNext(cc); });
    }
  }
}

void clientSendNext(Client* c) {
  if (c->closed || c->sendIdx >= c->cmds.size() || !c->s || c->s->appClosed) return;
  ClientCmd& cmd = c->cmds[c->sendIdx];
  CmdRecord rec;
  rec.client = c->id;
  rec.index = static_cast<int>(c->sendIdx);
  rec.http = c->http;
  rec.request = cmd.text;
  rec.tag = cmd.line.get("tag");
  rec.line = cmd.line;
  rec.sentT = now();
  c->recIdx.push_back(static_cast<int>(g_rd->cmds.size()));
  g_rd->cmds.push_back(rec);
  std::string bytes = cmd.text + (c->http ? "" : cmd.lineEnd);
  // a client that gives up: only the first 'abort' bytes are sent, then the connection is closed from its side
  bool aborting = cmd.line.has("abort");
  if (aborting) {
    size_t k = static_cast<size_t>(cmd.line.num("abort"));
    if (k < bytes.size()) bytes.resize(k);
    sim::count("fault.client_abort");
  }
  // chunks
  std::vector<size_t> cuts = cmd.cuts;
  cuts.push_back(bytes.size());
  size_t from = 0;
  int64_t t = 0;
  sim::Stream* s = c->s;
  if (cuts.size() > 1) sim::count("fault.tcp_request_segmented");
  for (size_t cut : cuts) {
    if (cut <= from || cut > bytes.size()) continue;
    std::string part = bytes.substr(from, cut - from);
    sim::eventAfter(t, [s, part]() { if (!s->appClosed) sim::streamFeed(s, part); });
    from = cut;
    t += cmd.gapUs * US;
  }
  c->sendIdx++;
  if (aborting) {
    Client* cc = c;
    sim::eventAfter(t + static_cast<int64_t>(cmd.line.num("abortwait", 0)) * US, [cc, s]() { s->eof = true; cc->closed = true; cc->done = true; });
    return;
  }
  if (cmd.pipeline && c->sendIdx < c->cmds.size()) {
    Client* cc = c;
    sim::eventAfter(t + 100 * US, [cc]() { clientSendNext(cc); });
  }
}

void clientConnect(Client* c) {
  sim::Stream* s = sim::netConnect(c->port);
  if (!s) {
    Client* cc = c;
    if (now() < 20 * sim::SEC) sim::eventAfter(50 * MS, [cc]() { clientConnect(cc); });
    return;
  }
  c->s = s;
  Client* cc = c;
  s->onWrite = [cc](const uint8_t* p, size_t n) {
    cc->rx.append(reinterpret_cast<const char*>(p), n);
    g_rd->rxAll[cc->id].append(reinterpret_cast<const char*>(p), n);
    clientCheckResponses(cc);
  };
  s->onClose = [cc]() {
    cc->closed = true;
    // whatever is left is the (unterminated) response of the command in flight
    if (cc->recvIdx < cc->sendIdx) {
      CmdRecord& rec = g_rd->cmds[static_cast<size_t>(cc->recIdx[cc->recvIdx])];
      rec.response = cc->rx;
      rec.doneT = now();
      rec.closedByServer = true;
      cc->recvIdx++;
    }
    cc->done = true;
  };
  if (c->cmds.empty()) { c->done = true; return; }
  sim::eventAfter(c->cmds[0].thinkMs * MS, [cc]() { clientSendNext(cc); });
}

}  // namespace

static void runL3(const plan::Plan& p, hz::RunResult* res, bool verbose) {
  RunData rd;
  g_rd = &rd;
  World world;
  g_world = &world;
  plan::Line c = p.cfg();
  sim::KConfig kc = hz::kernelConfigFrom(p, verbose);
  // scratch directory (real files: CSV configuration, ACL, html root)
  char dirbuf[256];
  const char* base = getenv("VERIF_SCRATCH");
  snprintf(dirbuf, sizeof(dirbuf), "%s/%d", base ? base : "/verif/build/scratch", static_cast<int>(getpid()));
  g_scratch = dirbuf;
  mkdir(base ? base : "/verif/build/scratch", 0755);
  rmTree(g_scratch);
  mkdir(g_scratch.c_str(), 0755);
  mkdir((g_scratch + "/cfg").c_str(), 0755);
  mkdir((g_scratch + "/www").c_str(), 0755);
  mkdir((g_scratch + "/www/html").c_str(), 0755);
  mkdir((g_scratch + "/www/html/sub").c_str(), 0755);
  {
    std::string csv, acl, csvz, csvzHdr = "#";
    for (auto& l : p.lines) {
      if (l.kind == "csv") csv += unhexText(l.get("l")) + "\n";
      else if (l.kind == "csvz") csvz += unhexText(l.get("l")) + "\n";
      else if (l.kind == "csvzhdr") csvzHdr = unhexText(l.get("l"));
      else if (l.kind == "acl") acl += unhexText(l.get("l")) + "\n";
      else if (l.kind == "file") {
        std::string path = l.get("path"), data = unhexText(l.get("data"));
        if (l.num("outside", 0)) { writeFile(g_scratch + "/www/" + path, data); rd.sentinel = data; }
        else { writeFile(g_scratch + "/www/html/" + path, data); rd.files[path] = data; }
      }
    }
    // the first line of a CSV file names the columns; an empty/comment line selects the default columns
    writeFile(g_scratch + "/cfg/sim.csv", "#\n" + csv);
    // a second file in a sub directory: read after the files of the directory itself (readdir order of one directory is not a seam)
    if (!csvz.empty()) { mkdir((g_scratch + "/cfg/zz").c_str(), 0755); writeFile(g_scratch + "/cfg/zz/fuzz.csv", csvzHdr + "\n" + csvz); }
    writeFile(g_scratch + "/acl.csv", "#\n" + acl);
  }
  sim::setAbortHandler([res](const char* verdict, const std::string& detail) {
    res->violate(std::string(verdict) == "infra" ? "INFRA" : "C20", verdict, verdict, detail);
    res->verdict = verdict;
    rmTree(g_scratch);
    hz::finishRun(res);
  });
  sim::kernelInit(kc);

  // daemon options through the repo's own argument parser
  std::vector<std::string> args = {"ebusd", "--foreground", "--configpath=" + g_scratch + "/cfg", "--port=8888", "--httpport=8889",
                                   "--htmlpath=" + g_scratch + "/www/html", "--updatecheck=off", "--scanconfig=off",
                                   "--aclfile=" + g_scratch + "/acl.csv", "--dumpfile=" + g_scratch + "/dump.bin",
                                   "--lograwdatafile=" + g_scratch + "/raw.log", "--logfile=" + g_scratch + "/ebusd.log"};
  for (auto& l : p.lines) if (l.kind == "arg") args.push_back(unhexText(l.get("v")));
  std::vector<char*> argv;
  for (auto& a : args) argv.push_back(const_cast<char*>(a.c_str()));
  argv.push_back(nullptr);
  char* envp[] = {nullptr};
  static options_t opt;
  int pr = parse_main_args(static_cast<int>(args.size()), argv.data(), envp, &opt);
  if (pr != 0) {
    // the MQTT family hands over topic templates that are matchable by construction (constants and variables separated by
    // constants): a daemon that refuses one cannot map any topic of it back
    std::string mt;
    for (auto& a : args) if (a.compare(0, 12, "--mqtttopic=") == 0) mt = a;
    if (c.get("family") == "c18m" && !mt.empty()) res->violate("C18", "mqtt-topic-mapping", "template-rejected", "the daemon rejects its arguments with " + mt);
    else res->violate("INFRA", "infra", "daemon arguments rejected", "parse_main_args failed");
    rmTree(g_scratch);
    hz::finishRun(res);
  }
  if (getenv("SIM_EBUSD_LOG")) {
    setFacilitiesLogLevel(1 << lf_COUNT, ll_debug);
  } else {
    int lvl = static_cast<int>(c.num("loglevel", 0));
    if (lvl == 0) closeLogFile();
    else { setLogFile("/dev/null"); setFacilitiesLogLevel(1 << lf_COUNT, static_cast<LogLevel>(lvl)); }
  }
  rd.own = opt.address;

  simbus::BusConfig bc = simbus::busConfigFromLine(c);
  bc.ownAddress = opt.address;
  simbus::Bus bus(bc, &rd.hist);
  world.bus = &bus;
  uint64_t nextId = 1;
  for (auto& l : p.lines) {
    if (l.kind == "bus") bus.items.push_back(simbus::itemFromLine(l, nextId++));
    else if (l.kind == "react") bus.reacts.push_back(simbus::reactFromLine(l, nextId++));
  }
  // heating system: registers with a fixed response length per (ZZ, PBSB, ID prefix); values unique per exchange
  struct Reg { uint8_t zz, pb, sb; Bytes id; int len; std::string gen; std::string layout; int val; };
  auto* regs = new std::vector<Reg>();
  for (auto& l : p.lines) {
    if (l.kind != "slave") continue;
    Reg r;
    r.zz = static_cast<uint8_t>(l.num("zz"));
    r.pb = static_cast<uint8_t>(l.num("pb"));
    r.sb = static_cast<uint8_t>(l.num("sb"));
    r.id = ref::unhex(l.get("id"));
    r.len = static_cast<int>(l.num("len", 1));
    r.gen = l.get("gen", "count");
    r.layout = l.get("layout");
    r.val = static_cast<int>(l.num("val", 0));
    regs->push_back(r);
  }
  auto* exCounter = new uint64_t(0);
  RunData* prd = &rd;
  bus.slaveResponder = [regs, exCounter](const Bytes& m) -> Bytes {
    const Reg* best = nullptr;
    for (const Reg& r : *regs) {
      if (m.size() < 5 || r.zz != m[1] || r.pb != m[2] || r.sb != m[3] || r.id.size() + 5 > m.size()) continue;
      bool eq = true;
      for (size_t i = 0; i < r.id.size(); i++) if (m[5 + i] != r.id[i]) eq = false;
      if (eq && (!best || r.id.size() > best->id.size())) best = &r;
    }
    if (!best) return Bytes();
    (*exCounter)++;
    Bytes d;
    d.push_back(static_cast<uint8_t>(best->len));
    uint64_t h = sim::hcomb(*exCounter, 0x5a);
    if (best->gen == "fixedascii") h = sim::hcomb(ref::crcOf(best->id), 0x77);   // a register that never changes
    // per byte: 'a' = printable letter (string fields), 'n' = any value except the replacement values
    std::string kinds;
    for (size_t q = 0; q < best->layout.size();) {
      char k = best->layout[q++];
      int n = atoi(best->layout.c_str() + q);
      while (q < best->layout.size() && best->layout[q] != ',') q++;
      q++;
      kinds.append(static_cast<size_t>(n), k);
    }
    for (int i = 0; i < best->len; i++) {
      uint8_t v = static_cast<uint8_t>(h >> (8 * (i % 8)));
      bool ascii = best->gen == "ascii" || best->gen == "fixedascii" || (static_cast<size_t>(i) < kinds.size() && kinds[static_cast<size_t>(i)] == 'a');
      if (best->gen == "const") v = static_cast<uint8_t>(best->val >> (8 * i));   // a register with a value fixed by the plan
      else if (ascii) v = static_cast<uint8_t>('A' + (v % 26));
      else if (best->gen == "small") v = static_cast<uint8_t>(v % 100);
      else if (v == 0xff || v == 0x80 || v == 0x7f) v = static_cast<uint8_t>(v ^ 0x15);   // stay away from replacement values
      d.push_back(v);
      if (i % 8 == 7) h = sim::mix64(h);
    }
    return d;
  };
  bus.onExchange = [prd](const Bytes& master, const Bytes& slave, bool answered) {
    Exchange e;
    e.t = now();
    e.master = master;
    e.slave = slave;
    e.answered = answered;
    prd->exchanges.push_back(e);
  };

  // the daemon, assembled like main() does
  const string lang = "";
  auto* messageMap = new MessageMap(opt.checkConfig, lang);
  string configPath = opt.configPath;
  auto* scanHelper = new ScanHelper(messageMap, configPath, configPath, "", "", nullptr, opt.checkConfig);
  messageMap->setResolver(scanHelper);
  auto* busHandler = new BusHandler(messageMap, scanHelper, opt.pollInterval);
  ebus_protocol_config_t config = {};
  config.device = "sim";
  config.noDeviceCheck = opt.noDeviceCheck;
  config.readOnly = opt.readOnly;
  config.extraLatency = opt.extraLatency;
  config.ownAddress = opt.address;
  config.answer = opt.answer;
  config.busLostRetries = opt.acquireRetries;
  config.failedSendRetries = opt.sendRetries;
  config.busAcquireTimeout = opt.acquireTimeout;
  config.slaveRecvTimeout = opt.receiveTimeout;
  config.lockCount = opt.masterCount;
  config.generateSyn = opt.generateSyn;
  config.initialSend = opt.initialSend;
  auto* transport = new SimTransport(&bus.port, opt.extraLatency);
  Device* device = bc.enhanced ? static_cast<Device*>(new EnhancedDevice(transport)) : static_cast<Device*>(new PlainDevice(transport));
  ProtocolHandler* protocol = new DirectProtocolHandler(config, device, busHandler);
  busHandler->setProtocol(protocol);
  bus.start();
  protocol->open();
  auto* requestQueue = new Queue<Request*>();
  auto* mainLoop = new MainLoop(opt, busHandler, messageMap, scanHelper, requestQueue);
  result_t loadResult = scanHelper->loadConfigFiles(!opt.scanConfig);
  res->counters["l3.config_load_ok"] += loadResult == RESULT_OK ? 1 : 0;
  res->counters["l3.messages_loaded"] += messageMap->size();
  protocol->start("bushandler");
  mainLoop->start("mainloop");
  auto* network = new Network(opt.localOnly, opt.port, opt.httpPort, requestQueue);
  network->start("network");

  // clients
  std::map<int, Client*> byId;
  for (auto& l : p.lines) {
    if (l.kind == "client") {
      auto* cl = new Client();
      cl->id = static_cast<int>(l.num("id"));
      cl->http = l.num("http", 0) != 0;
      cl->atMs = l.num("at", 100);
      cl->port = cl->http ? 8889 : 8888;
      byId[cl->id] = cl;
      world.clients.push_back(cl);
    } else if (l.kind == "cmd") {
      auto it = byId.find(static_cast<int>(l.num("client")));
      if (it == byId.end()) continue;
      ClientCmd cmd;
      cmd.line = l;
      cmd.text = unhexText(l.get("text"));
      std::string cuts = l.get("cuts");
      size_t i = 0;
      while (i < cuts.size()) {
        size_t j = cuts.find(',', i);
        if (j == std::string::npos) j = cuts.size();
        cmd.cuts.push_back(static_cast<size_t>(atol(cuts.substr(i, j - i).c_str())));
        i = j + 1;
      }
      cmd.gapUs = l.num("gap", 200);
      cmd.thinkMs = l.num("think", 5);
      cmd.pipeline = l.num("pipe", 0) != 0;
      cmd.lineEnd = l.num("crlf", 0) ? "\r\n" : "\n";
      it->second->cmds.push_back(cmd);
    }
  }
  for (Client* cl : world.clients) {
    Client* cc = cl;
    sim::eventAt(cl->atMs * MS, [cc]() { clientConnect(cc); });
  }
  // MQTT: messages arriving from the broker
  for (auto& l : p.lines) {
    if (l.kind != "mqtt") continue;
    std::string topic = unhexText(l.get("topic")), data = unhexText(l.get("data"));
    sim::eventAt(l.num("at", 1000) * MS, [topic, data]() { mqttstub::broker().incoming.push_back(std::make_pair(topic, data)); });
    MqttIn in; in.t = l.num("at", 1000) * MS; in.topic = topic; in.data = data; in.line = l;
    rd.mqttIn.push_back(in);
  }
  // timed faults (stalls)
  for (auto& l : p.lines) {
    if (l.kind != "fault" || l.sub != "stall") continue;
    std::string th = l.get("thread", "mainloop");
    int64_t ms = l.num("ms", 50);
    sim::eventAt(l.num("at", 0) * MS, [th, ms]() { sim::stallThread(th.c_str(), ms * MS); });
  }

  int64_t maxMs = c.num("maxms", 120000);
  int64_t minMs = c.num("minms", 300);
  int64_t quietSince = -1;
  for (;;) {
    sim::sleepFor(20 * MS);
    bool all = true;
    for (Client* cl : world.clients) if (!cl->done) all = false;
    int64_t t = now();
    if (all && t >= minMs * MS && bus.itemsExhausted()) {
      if (quietSince < 0) quietSince = t;
      if (t - quietSince >= c.num("tailms", 100) * MS) break;
    } else {
      quietSince = -1;
    }
    if (t > maxMs * MS) break;
  }
  rd.endT = now();
  rd.clientsDone = true;
  for (Client* cl : world.clients) if (!cl->done) rd.clientsDone = false;
  res->counters["l3.mqtt_published"] += mqttstub::broker().published.size();
  for (auto& m : mqttstub::broker().published) { Pub pb; pb.t = m.t; pb.topic = m.topic; pb.data = m.data; rd.pubs.push_back(pb); }

  // orderly shutdown like main(): network, main loop, request queue, protocol, bus handler, message map, scan helper
  if (rd.clientsDone && c.num("shutdown", 1)) {
    mainLoop->shutdown();
    mainLoop->join();
    delete network;
    delete mainLoop;
    Request* msg;
    while ((msg = requestQueue->pop()) != nullptr) delete msg;
    delete requestQueue;
    delete protocol;
    delete busHandler;
    delete messageMap;
    delete scanHelper;
    res->counters["l3.orderly_shutdown"]++;
    if (c.num("lsan", 0)) hz::g_leakCheck = true;
    if (getenv("SIM_TEST_LEAK")) { volatile char* lost = new char[1234]; lost[0] = 1; lost = nullptr; }   // self test of the leak check
  }
  checkL3(p, rd, res);
  res->counters["l3.client_commands"] += rd.cmds.size();
  res->counters["l3.bus_exchanges"] += rd.exchanges.size();
  res->counters["bus.symbols"] += bus.nSymbols;
  if (verbose) {
    fputs(rd.hist.dump().c_str(), stderr);
    for (auto& r : rd.cmds) fprintf(stderr, "CMD c%d #%d sent=%.3f done=%.3f req=[%s] resp=[%s]%s\n", r.client, r.index, r.sentT / 1e6, r.doneT / 1e6, r.request.c_str(), r.response.c_str(), r.closedByServer ? " (closed)" : "");
    for (auto& e : rd.exchanges) fprintf(stderr, "EXCH %.3f %s / %s\n", e.t / 1e6, ref::hex(e.master).c_str(), ref::hex(e.slave).c_str());
    for (auto& m : mqttstub::broker().published) fprintf(stderr, "MQTT %.3f %s = %s\n", m.t / 1e6, m.topic.c_str(), m.data.c_str());
  }
  if (res->sample.empty()) {
    char buf[200];
    snprintf(buf, sizeof(buf), "family=%s clients=%zu commands=%zu exchanges=%zu", c.get("family").c_str(), world.clients.size(), rd.cmds.size(), rd.exchanges.size());
    res->sample = buf;
  }
  rmTree(g_scratch);
  hz::finishRun(res);
}

struct RegL3 {
  RegL3() { hz::registerHarness("l3", runL3); }
} g_regL3;

}  // namespace l3
