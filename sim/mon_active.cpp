// C02 C03 C04 C15 oracles.  One monitor walks the recorded history in order and judges every transmission of
// ebusd by what ebusd could know at that instant (the bytes the kernel had handed it), using generative reference
// automata for the master role (own requests) and the slave role (answer mode).
#include <stdio.h>
#include <stdlib.h>

#include <deque>
#include <map>
#include <set>

#include "h_l1.h"
#include "ref_enh.h"

namespace l1 {

using ref::Bytes;
using sim::Ev;
using sim::MS;

namespace {

// ---------------------------------------------------------------------------------------------
// master role reference: what ebusd must transmit for one request, as a function of what it receives
// ---------------------------------------------------------------------------------------------
struct MasterRef {
  Bytes master;            // unescaped QQ ZZ PB SB NN D..
  Bytes wire;              // bytes still to be transmitted in the current attempt
  enum St { SEND, WAIT_ACK, RECV_RESP, SEND_RESPACK, SEND_NAK_OR_SYN, OPT_SYN, SEND_SYN, DONE, FAILED } st = SEND;
  int attempt = 0, respAttempt = 0;
  size_t pos = 0;
  Bytes resp;              // unescaped response so far
  bool respEsc = false;
  uint8_t respCrc = 0;
  bool respCrcOk = false;
  bool valid = false;
  Bytes slave;
  const char* failWhy = "";

  explicit MasterRef(const Bytes& m) : master(m) {
    Bytes rest(m.begin() + 1, m.end());
    wire = ref::escaped(rest);
    ref::escapeInto(ref::crcOf(m), &wire);
  }
  uint8_t zz() const { return master[1]; }
  // -1: nothing may be sent (waiting); -2: NAK or SYN; -3: SYN optional; >=0: exactly this byte
  int nextTx() const {
    switch (st) {
      case SEND: return wire[pos];
      case SEND_RESPACK: return respCrcOk ? ref::ACK : ref::NAK;
      case SEND_NAK_OR_SYN: return -2;
      case OPT_SYN: return -3;
      case SEND_SYN: return ref::SYN;
      default: return -1;
    }
  }
  bool accepts(uint8_t b) const {
    int n = nextTx();
    if (n >= 0) return n == b;
    if (n == -2) return b == ref::NAK || b == ref::SYN;
    if (n == -3) return b == ref::SYN;
    return false;
  }
  void fail(const char* why) { if (st != DONE) { st = FAILED; failWhy = why; } }
  // the transmitted byte b was echoed correctly
  void onEchoOk(uint8_t b) {
    switch (st) {
      case SEND:
        pos++;
        if (pos >= wire.size()) {
          if (zz() == ref::BROADCAST) { valid = true; st = SEND_SYN; }
          else st = WAIT_ACK;
        }
        break;
      case SEND_RESPACK:
        if (respCrcOk) { valid = true; slave = resp; st = SEND_SYN; }
        else { respAttempt = 1; resp.clear(); respEsc = false; respCrc = 0; st = RECV_RESP; }
        break;
      case SEND_NAK_OR_SYN:
        st = b == ref::SYN ? DONE : OPT_SYN;
        break;
      case OPT_SYN:
      case SEND_SYN:
        st = DONE;
        break;
      default:
        break;
    }
  }
  void onRx(uint8_t b) {
    switch (st) {
      case WAIT_ACK:
        if (b == ref::ACK) {
          if (ref::isMaster(zz())) { valid = true; st = SEND_SYN; }
          else { st = RECV_RESP; resp.clear(); respEsc = false; respCrc = 0; }
        } else if (b == ref::NAK && attempt == 0) {
          attempt = 1;
          wire = ref::escaped(master);
          ref::escapeInto(ref::crcOf(master), &wire);
          pos = 0;
          st = SEND;
        } else {
          fail(b == ref::NAK ? "second NAK" : "no ACK");
        }
        break;
      case RECV_RESP: {
        bool complete = !resp.empty() && resp.size() == static_cast<size_t>(resp[0]) + 1;
        uint8_t u = b;
        if (respEsc) {
          if (b > 1) { fail("invalid escape in response"); return; }
          u = b == 0 ? ref::ESC : ref::SYN;
          respEsc = false;
          if (!complete) respCrc = ref::crcStep(respCrc, b);
        } else if (b == ref::ESC) {
          respEsc = true;
          if (!complete) respCrc = ref::crcStep(respCrc, b);
          return;
        } else if (!complete) {
          respCrc = ref::crcStep(respCrc, b);
        }
        if (!complete) { resp.push_back(u); return; }
        // u is the CRC
        respCrcOk = u == respCrc;
        if (respCrcOk || respAttempt == 0) st = SEND_RESPACK;
        else st = SEND_NAK_OR_SYN;
        break;
      }
      default:
        break;
    }
  }
};

// ---------------------------------------------------------------------------------------------
// slave role reference (answer mode)
// ---------------------------------------------------------------------------------------------
struct SlaveRef {
  enum St { NONE, SEND_ACK, SEND_NAK, WAIT_REPEAT, SEND_RESP, WAIT_RESP_ACK, DONE, FAILED } st = NONE;
  Bytes master;     // the received command (unescaped)
  Bytes wire;       // response on the wire: escaped(NN D..) + crc
  size_t pos = 0;
  int respAttempt = 0;
  bool toMaster = false;
  bool completed = false, reported = false;
  int nextTx() const {
    switch (st) {
      case SEND_ACK: return ref::ACK;
      case SEND_NAK: return ref::NAK;
      case SEND_RESP: return wire[pos];
      default: return -1;
    }
  }
};

struct DevEv {
  enum Type { RX, TX, ARBSTART, ARBCANCEL, TIMEOUT, IOERR, CLOSED, OPENED, OTHER } type = OTHER;
  int64_t t = 0;
  uint8_t b = 0;
  int arb = 0;             // RX (enhanced): 1 won, 2 lost
  bool lastOfChunk = true;
  size_t histIndex = 0;    // for OTHER: index of the history event
};

// Turns the history into device level events.  Symbols are taken from the bytes the kernel handed over (and, for the
// enhanced device, the reference decoder); ebusd's own per-symbol notification is used only to place each symbol
// at the point of the history where ebusd's protocol layer actually looked at it (a read() may return several).
std::vector<DevEv> extract(const RunData& rd, hz::RunResult* res) {
  std::vector<DevEv> out;
  refenh::Decoder rxDec;
  int txFirst = -1;
  std::deque<DevEv> fifo;   // symbols read but not yet looked at by the protocol layer
  int64_t lastOpenT = -(1LL << 60);
  bool readErrPending = false;
  auto flush = [&]() { while (!fifo.empty()) { DevEv d = fifo.front(); fifo.pop_front(); d.lastOfChunk = fifo.empty(); out.push_back(d); } };
  for (size_t i = 0; i < rd.hist.evs.size(); i++) {
    const Ev& e = rd.hist.evs[i];
    DevEv d;
    d.t = e.t;
    d.histIndex = i;
    switch (e.kind) {
      case sim::EV_READ:
        if (!rd.bc.enhanced) {
          for (size_t k = 0; k < e.bytes.size(); k++) {
            d.type = DevEv::RX;
            d.b = e.bytes[k];
            fifo.push_back(d);
          }
        } else {
          std::vector<refenh::Event> evs;
          for (size_t k = 0; k < e.bytes.size(); k++) rxDec.feed(e.bytes[k], k, &evs);
          for (size_t k = 0; k < evs.size(); k++) {
            const refenh::Event& ev = evs[k];
            if (ev.kind == refenh::Event::SYMBOL) {
              d.type = DevEv::RX;
              d.b = ev.value;
              d.arb = ev.arb;
              fifo.push_back(d);
            } else if (ev.kind == refenh::Event::RESET || (ev.kind == refenh::Event::DIAG && ev.cmd != 0)) {
              // adapter reset or error frame: a running arbitration is over, ebusd knows about a device problem.
              // (the RESETTED that answers the INIT request after an open is the normal handshake)
              if (ev.kind == refenh::Event::RESET && e.t - lastOpenT < 3 * sim::SEC) continue;
              DevEv x = d;
              x.type = DevEv::IOERR;
              if (fifo.empty()) out.push_back(x); else fifo.push_back(x);
            }
          }
        }
        break;
      case sim::EV_RXSYM:
      case sim::EV_TXSYM: {
        if (e.kind == sim::EV_RXSYM) readErrPending = false;
        // a TXSYM marker matters only for the enhanced device (STARTED is notified as a sent symbol)
        if (e.kind == sim::EV_TXSYM && !(rd.bc.enhanced && !fifo.empty() && fifo.front().type == DevEv::RX && fifo.front().arb == refenh::ARB_WON)) break;
        // release everything up to and including the symbol ebusd is looking at now
        size_t k = 0;
        while (k < fifo.size() && !(fifo[k].type == DevEv::RX && fifo[k].b == static_cast<uint8_t>(e.a))) k++;
        if (k >= fifo.size()) { res->counters["l1.symbol_marker_unmatched"]++; break; }
        for (size_t q = 0; q <= k; q++) {
          DevEv x = fifo.front();
          fifo.pop_front();
          if (q < k && x.type == DevEv::RX) { res->counters["l1.symbol_skipped_by_device_layer"]++; continue; }
          x.lastOfChunk = fifo.empty();
          x.t = e.t;
          out.push_back(x);
        }
        break;
      }
      case sim::EV_WRITE:
        // symbols that were read but not yet looked at stay queued: ebusd may well write with unprocessed bytes buffered
        if (!rd.bc.enhanced) {
          for (uint8_t b : e.bytes) { d.type = DevEv::TX; d.b = b; out.push_back(d); }
        } else {
          for (uint8_t c : e.bytes) {
            if (!(c & 0x80)) { d.type = DevEv::TX; d.b = c; out.push_back(d); txFirst = -1; }
            else if ((c & 0xC0) == 0xC0) txFirst = c;
            else if (txFirst >= 0) {
              uint8_t cmd = static_cast<uint8_t>((txFirst >> 2) & 0xf);
              uint8_t data = static_cast<uint8_t>(((txFirst & 3) << 6) | (c & 0x3f));
              txFirst = -1;
              if (cmd == refenh::REQ_SEND) { d.type = DevEv::TX; d.b = data; out.push_back(d); }
              else if (cmd == refenh::REQ_START) { d.type = data == ref::SYN ? DevEv::ARBCANCEL : DevEv::ARBSTART; d.b = data; out.push_back(d); }
            }
          }
        }
        break;
      case sim::EV_POLL:
        if (e.a == 0 && e.b == 1) { d.type = DevEv::TIMEOUT; out.push_back(d); }   // a full length wait without data
        else if (e.a < 0) { d.type = DevEv::IOERR; out.push_back(d); }
        break;
      case sim::EV_FAULT:
        // read errors and early poll returns are retried by the transport; the others are device errors known to ebusd
        if (e.s == "writeerr" || e.s == "writeshort" || e.s == "pollerr" || e.s == "pollhup" || e.s == "polleintr" ||
            e.s == "hup") { d.type = DevEv::IOERR; out.push_back(d); }
        else {
          // a failed read is retried by the device layer until its deadline; when the deadline has passed meanwhile, ebusd
          // sees a timeout although the poll before reported data: accepted when ebusd itself reports the timeout next
          if (e.s == "readerr" || e.s == "readeintr" || e.s == "readzero" || e.s == "readagain") readErrPending = true;
          d.type = DevEv::OTHER; out.push_back(d);
        }
        break;
      case sim::EV_CLOSE: fifo.clear(); d.type = DevEv::CLOSED; rxDec.reset(); txFirst = -1; out.push_back(d); break;
      case sim::EV_OPEN: lastOpenT = e.t; fifo.clear(); d.type = DevEv::OPENED; rxDec.reset(); txFirst = -1; out.push_back(d); break;
      case sim::EV_DEVSTATUS:
        if (e.s.find("overflow") != std::string::npos) { fifo.clear(); d.type = DevEv::IOERR; out.push_back(d); }
        break;
      case sim::EV_STATUS:
        // enhanced device: a deadline that expires while only the first half of a two byte sequence has arrived is a
        // timeout for ebusd although no poll timed out; ebusd's own timeout report is accepted in exactly that situation
        if (rd.bc.enhanced && e.b == -5 && rxDec.pendingFirst()) { d.type = DevEv::TIMEOUT; out.push_back(d); }
        else if (e.b == -5 && readErrPending) { readErrPending = false; d.type = DevEv::TIMEOUT; out.push_back(d); res->counters["l1.timeout_after_read_error"]++; }
        break;
      case sim::EV_REQUEST:
      case sim::EV_MESSAGE:
        d.type = DevEv::OTHER;
        out.push_back(d);
        break;
      default:
        break;
    }
  }
  flush();
  return out;
}

int masterNumber(uint8_t a) {
  auto idx = [](uint8_t n) { return n == 0 ? 1 : n == 1 ? 2 : n == 3 ? 3 : n == 7 ? 4 : n == 0xf ? 5 : 0; };
  int lo = idx(a & 0xf), hi = idx(a >> 4);
  return lo && hi ? 5 * (lo - 1) + hi : 0;
}

struct ReqState {
  bool submitted = false, finalNotified = false, returned = false, destroyed = false, rejected = false;
  int notifies = 0;
  int lastResult = 0;
  Bytes lastSlave;
};

class Monitor {
 public:
  Monitor(const RunData& rd, hz::RunResult* res) : rd(rd), res(res) {}
  void run();

 private:
  const RunData& rd;
  hz::RunResult* res;
  // bus knowledge of ebusd
  bool lastRxWasSynChunkEnd = false;   // the last handed symbol is a SYN that ended its read() result
  bool lastRxWasSyn = false;
  bool prevRxLastOfChunk = true;
  int lockout = 0;                      // SYNs still to wait after a lost arbitration
  bool silent = true;                   // after an error: no transmission until the next SYN was handed over
  const char* silentWhy = "start";
  int64_t lastRxT = -1;
  int echoPending = -1;                 // byte written and not yet echoed
  enum EchoKind { EK_NONE, EK_ARB, EK_OWN, EK_AUTOSYN, EK_ANSWER, EK_UNKNOWN } echoKind = EK_NONE;
  bool enhArbArmed = false;
  uint8_t enhArbAddr = 0;
  bool isSynGenerator = false;
  // own exchange
  bool own = false;
  std::vector<MasterRef> cands;
  bool ownJudged = true;
  // passive tracking for answer mode
  Bytes pm;          // unescaped master bytes of the telegram in progress (passive)
  bool pmEsc = false, pmDead = false, pmComplete = false;
  uint8_t pmCrc = 0;
  int pmAttempt = 0;
  SlaveRef slave;
  // requests
  std::map<uint64_t, ReqState> rq;
  std::map<std::string, std::deque<Bytes>> validAwaitingNotify;  // content -> slave data of valid exchanges not yet reported
  std::map<std::string, int> validAwaitingMsg;
  uint64_t nExchanges = 0, nValid = 0, nAnswered = 0;

  void violate(const char* prop, const char* cls, const std::string& sig, const DevEv& d, const std::string& detail) {
    char buf[64];
    snprintf(buf, sizeof(buf), " at %.3fms", d.t / 1e6);
    res->violate(prop, cls, sig, detail + buf);
  }
  bool anyPending(uint8_t qq) const {
    for (auto& r : rq) {
      const ReqState& s = r.second;
      if (!s.submitted || s.rejected) continue;
      auto it = rd.reqs.find(r.first);
      if (it == rd.reqs.end()) continue;
      bool done = it->second.kind == "sendwait" ? s.returned : s.finalNotified;
      if (!done && it->second.master[0] == qq) return true;
    }
    return false;
  }
  std::vector<Bytes> pendingMasters(uint8_t qq) const {
    std::vector<Bytes> v;
    for (auto& r : rq) {
      const ReqState& s = r.second;
      if (!s.submitted || s.rejected) continue;
      auto it = rd.reqs.find(r.first);
      if (it == rd.reqs.end()) continue;
      bool done = it->second.kind == "sendwait" ? s.returned : s.finalNotified;
      if (!done && it->second.master[0] == qq) v.push_back(it->second.master);
    }
    return v;
  }
  void endOwn(const char* why) {
    if (!own) return;
    for (auto& c : cands) c.fail(why);
    own = false;
    cands.clear();
  }
  void startOwn(uint8_t qq) {
    own = true;
    ownJudged = true;
    cands.clear();
    for (auto& m : pendingMasters(qq)) cands.emplace_back(m);
    nExchanges++;
  }
  // an exchange that failed is over: ebusd is bound to silence until the next SYN (AUTO-SYN excepted)
  void closeFailedOwn() {
    if (!own || cands.empty()) return;
    for (auto& c : cands) if (c.st != MasterRef::FAILED) return;
    silent = true;
    silentWhy = cands[0].failWhy[0] ? cands[0].failWhy : "failed";
    own = false;
    cands.clear();
  }
  void noteValidIfAny() {
    // called after every step of the own exchange: record the validity point once
    for (auto& c : cands) {
      if (c.valid && !c.failWhy[0]) {
        std::string key = ref::hex(c.master);
        validAwaitingNotify[key].push_back(c.slave);
        validAwaitingMsg[key]++;
        nValid++;
        // all candidates with the same content are equivalent; keep just this one from now on
        MasterRef keep = c;
        keep.failWhy = "v";   // marker: validity already recorded
        cands.clear();
        cands.push_back(keep);
        return;
      }
    }
  }
  void onTx(const DevEv& d);
  void onRx(const DevEv& d);
  void onOther(const DevEv& d);
  void passiveRx(uint8_t b, const DevEv& d);
  const AnswerInfo* lookupAnswer(const Bytes& m) const;
  void resetBusKnowledge(const char* why) {
    endOwn(why);
    echoPending = -1;
    echoKind = EK_NONE;
    silent = true;
    silentWhy = why;
    lastRxWasSyn = lastRxWasSynChunkEnd = false;
    enhArbArmed = false;
    slave = SlaveRef();
    pm.clear(); pmEsc = false; pmDead = true; pmComplete = false;
  }
};

const AnswerInfo* Monitor::lookupAnswer(const Bytes& m) const {
  // reference answer table: longest matching ID prefix, source restricted entries first at equal length
  if (m.size() < 5) return nullptr;
  const AnswerInfo* best = nullptr;
  size_t nn = m[4];
  for (size_t ai = 0; ai < rd.answers.size(); ai++) {
    const AnswerInfo& a = rd.answers[ai];
    if (!a.accepted) continue;
    // a later registration for the same (source, destination, command, ID) replaces an earlier one
    bool replaced = false;
    for (size_t aj = ai + 1; aj < rd.answers.size(); aj++) {
      const AnswerInfo& o = rd.answers[aj];
      if (o.accepted && o.src == a.src && o.dst == a.dst && o.pb == a.pb && o.sb == a.sb && o.id == a.id) replaced = true;
    }
    if (replaced) continue;
    if (a.dst != m[1] || a.pb != m[2] || a.sb != m[3]) continue;
    if (a.src >= 0 && a.src != m[0]) continue;
    if (a.id.size() > nn || a.id.size() + 5 > m.size()) continue;
    bool eq = true;
    for (size_t i = 0; i < a.id.size(); i++) if (m[5 + i] != a.id[i]) eq = false;
    if (!eq) continue;
    if (ref::isMaster(m[1])) {
      // master destination: the registered data is the expected data tail; its length must fit
      size_t tail = a.data.empty() ? 0 : a.data[0];
      if (a.id.size() + tail != nn) continue;
    }
    if (!best || a.id.size() > best->id.size() || (a.id.size() == best->id.size() && (a.src >= 0 || best->src < 0))) best = &a;  // ties: the later registration replaced the earlier one
  }
  return best;
}

void Monitor::onTx(const DevEv& d) {
  uint8_t b = d.b;
  if (rd.hc.readOnly) {
    violate("C03", "write-in-readonly", "any", d, "ebusd transmitted in read-only mode");
    return;
  }
  if (echoPending >= 0 && !rd.bc.enhanced) {
    violate("C03", "write-before-echo", "plain", d, "a symbol was written before the echo of the previous one was handed over");
  }
  if (own) {
    // continuation of the own telegram
    bool ok = false;
    for (auto& c : cands) if (c.accepts(b)) ok = true;
    if (!ok && !cands.empty()) {
      const MasterRef& c = cands[0];
      int n = c.nextTx();
      char buf[200];
      if (n == -1) {
        snprintf(buf, sizeof(buf), "wrote %02x while the exchange was %s", b, c.st == MasterRef::FAILED ? c.failWhy : "waiting for the other participant");
        if (c.st == MasterRef::FAILED || c.st == MasterRef::DONE) violate("C03", "write-after-error-before-syn", c.st == MasterRef::FAILED ? c.failWhy : "done", d, buf);
        else violate("C03", "write-while-waiting", "own-exchange", d, buf);
      } else {
        const char* where = c.st == MasterRef::SEND ? (c.attempt ? "repeated-command" : "command") : c.st == MasterRef::SEND_RESPACK ? "response-ack" : "end";
        snprintf(buf, sizeof(buf), "wrote %02x, reference expects %s%02x (%s, request %s)", b, n < 0 ? "NAK/SYN, not " : "", n < 0 ? b : n, where, ref::hex(c.master).c_str());
        std::string sig = where;
        if (c.st == MasterRef::SEND_RESPACK) sig += c.respCrcOk ? " expected-ACK" : " expected-NAK";
        if (c.st == MasterRef::SEND_NAK_OR_SYN) sig = "response-ack-after-second-bad-crc";
        violate("C02", "wrong-byte", sig, d, buf);
      }
      ownJudged = false;
      endOwn("unexpected write");
      silent = true;
      silentWhy = "unjudged";
      echoPending = b;
      echoKind = EK_UNKNOWN;
      return;
    }
    if (cands.empty()) {
      // won without a pending request: already reported at the arbitration; follow nothing
      echoPending = b;
      echoKind = EK_UNKNOWN;
      return;
    }
    std::vector<MasterRef> keep;
    for (auto& c : cands) if (c.accepts(b)) keep.push_back(c);
    cands.swap(keep);
    echoPending = b;
    echoKind = EK_OWN;
    return;
  }
  if (slave.st == SlaveRef::SEND_ACK || slave.st == SlaveRef::SEND_NAK || slave.st == SlaveRef::SEND_RESP) {
    int n = slave.nextTx();
    if (n != b) {
      char buf[160];
      snprintf(buf, sizeof(buf), "answering %s: wrote %02x, reference expects %02x", ref::hex(slave.master).c_str(), b, n);
      violate("C15", "wrong-answer-byte", slave.st == SlaveRef::SEND_RESP ? "response" : slave.st == SlaveRef::SEND_ACK ? "expected-ACK" : "expected-NAK", d, buf);
      slave.st = SlaveRef::FAILED;
    }
    echoPending = b;
    echoKind = EK_ANSWER;
    return;
  }
  if (b == ref::SYN) {
    // AUTO-SYN
    int64_t need = (isSynGenerator ? 40 : 51 + 10 * masterNumber(rd.hc.own)) * MS;
    int64_t quiet = lastRxT < 0 ? (1LL << 60) : d.t - lastRxT;
    if (!rd.hc.generateSyn) violate("C03", "autosyn-not-configured", "syn", d, "SYN written although SYN generation is off and no exchange is being ended");
    else if (quiet < need - 1 * MS) {
      char buf[120];
      snprintf(buf, sizeof(buf), "AUTO-SYN after only %.1f ms of silence (needs %lld)", quiet / 1e6, static_cast<long long>(need / MS));
      violate("C03", "autosyn-too-early", isSynGenerator ? "generator" : "candidate", d, buf);
    }
    echoPending = b;
    echoKind = EK_AUTOSYN;
    return;
  }
  // only an arbitration address is left
  char buf[200];
  if (b != rd.hc.own) {
    snprintf(buf, sizeof(buf), "wrote %02x while passive (not the own address, no exchange, no answer due)", b);
    // an ACK/NAK/response after a complete telegram to an own address belongs to answer mode
    bool toOwn = pmComplete && slave.master.size() >= 2 && (slave.master[1] == rd.hc.own || slave.master[1] == ref::slaveOf(rd.hc.own));
    if (toOwn && slave.st == SlaveRef::NONE)
      violate("C15", "answered-unregistered", "passive", d, buf);
    else if (toOwn)
      violate("C15", "answer-continued-after-give-up", slave.st == SlaveRef::DONE ? "after-completion" : "after-failure", d, buf);
    else
      violate("C03", "unsolicited-write", silent ? silentWhy : "passive", d, buf);
    echoPending = b;
    echoKind = EK_UNKNOWN;
    return;
  }
  if (silent) {
    snprintf(buf, sizeof(buf), "arbitration address written while bound to silence (%s)", silentWhy);
    violate("C03", "write-after-error-before-syn", silentWhy, d, buf);
  } else if (!lastRxWasSynChunkEnd) {
    violate("C03", "arbitration-not-after-syn", lastRxWasSyn ? "syn-not-last-in-buffer" : "no-syn", d,
            "arbitration address written although the last symbol handed over was not a lone SYN");
  } else if (lockout > 0) {
    violate("C03", "arbitration-too-early-after-loss", "first-syn-after-lost-arbitration", d, "arbitration at the first SYN after a lost arbitration");
  }
  if (!anyPending(b)) {
    violate("C03", "arbitration-without-request", "no-pending-request", d, "arbitration address written although no request is pending");
  }
  echoPending = b;
  echoKind = EK_ARB;
}

void Monitor::passiveRx(uint8_t b, const DevEv& d) {
  // follow a foreign telegram far enough to know whether ebusd must answer it (C15)
  if (pmDead) return;
  if (slave.st == SlaveRef::WAIT_RESP_ACK) {
    if (b == ref::ACK) { slave.st = SlaveRef::DONE; slave.completed = true; nAnswered++; }
    else if (b == ref::NAK && slave.respAttempt == 0) { slave.respAttempt = 1; slave.pos = 0; slave.st = SlaveRef::SEND_RESP; }
    else slave.st = SlaveRef::FAILED;
    return;
  }
  if (pmComplete) return;
  bool crcPos = pm.size() >= 5 && pm.size() == static_cast<size_t>(5 + pm[4]);
  uint8_t u = b;
  if (pmEsc) {
    if (b > 1) { pmDead = true; return; }
    u = b == 0 ? ref::ESC : ref::SYN;
    pmEsc = false;
    if (!crcPos) pmCrc = ref::crcStep(pmCrc, b);
  } else if (b == ref::ESC) {
    pmEsc = true;
    if (!crcPos) pmCrc = ref::crcStep(pmCrc, b);
    return;
  } else if (!crcPos) {
    pmCrc = ref::crcStep(pmCrc, b);
  }
  if (!crcPos) {
    if (pm.size() == 0 && !ref::isMaster(u)) { pmDead = true; return; }
    if (pm.size() == 1 && (!ref::isValidAddress(u) || u == pm[0])) { pmDead = true; return; }
    pm.push_back(u);
    if (pm.size() == 5 && pm[4] > 16) pmDead = true;
    return;
  }
  pmComplete = true;
  bool crcOk = u == pmCrc;
  uint8_t zz = pm[1];
  bool toOwn = rd.hc.answer && !rd.hc.readOnly && zz != ref::BROADCAST;
  slave = SlaveRef();
  slave.master = pm;
  if (!toOwn) return;
  const AnswerInfo* a = lookupAnswer(pm);
  if (!a) return;
  slave.toMaster = ref::isMaster(zz);
  if (crcOk) {
    slave.st = SlaveRef::SEND_ACK;
    if (!slave.toMaster) {
      slave.wire = ref::escaped(a->data);
      ref::escapeInto(ref::crcOf(a->data), &slave.wire);
    }
  } else if (pmAttempt == 0) {
    slave.st = SlaveRef::SEND_NAK;
  }
  (void)d;
}

void Monitor::onRx(const DevEv& d) {
  uint8_t b = d.b;
  // a required transmission that did not happen before the next symbol arrived (only judged if the previous
  // symbol emptied ebusd's receive buffer, i.e. ebusd passed through its send step in between)
  bool hadChance = prevRxLastOfChunk;
  prevRxLastOfChunk = d.lastOfChunk;
  // (after the second bad response the choice between NAK and SYN is free, staying silent is not: the exchange ends with a SYN)
  if (echoPending < 0 && own && !cands.empty() && (cands[0].nextTx() >= 0 || cands[0].nextTx() == -2) && cands[0].st != MasterRef::SEND) {
    // ebusd was due to transmit (response acknowledge / final SYN) but another symbol arrived first: somebody else is
    // on the bus, the exchange is broken. It is a violation only if ebusd had the chance to transmit before.
    int n = cands[0].nextTx();
    if (hadChance) {
      char buf[160];
      snprintf(buf, sizeof(buf), "reference expects ebusd to write %02x (%s) but the next symbol %02x was read first", n == -2 ? ref::SYN : n,
               cands[0].st == MasterRef::SEND_SYN ? "final SYN" : n == -2 ? "NAK or SYN after the second bad response" : "response acknowledge", b);
      violate("C02", "missing-byte", cands[0].st == MasterRef::SEND_SYN ? "final-SYN" : n == -2 ? "exchange-end-after-second-bad-response" : "response-ack", d, buf);
    } else {
      res->counters["c02.foreign_symbol_instead_of_own_turn"]++;
    }
    endOwn("foreign symbol");
    silent = true;
    silentWhy = "foreign-symbol-in-own-exchange";
  }
  if (echoPending < 0 && hadChance) {
    if (slave.st == SlaveRef::SEND_ACK || slave.st == SlaveRef::SEND_NAK) {
      char buf[200];
      snprintf(buf, sizeof(buf), "telegram %s is addressed to an own address and matches a registered answer, but ebusd did not %s it", ref::hex(slave.master).c_str(),
               slave.st == SlaveRef::SEND_ACK ? "acknowledge" : "NAK");
      violate("C15", slave.st == SlaveRef::SEND_ACK ? "missing-ACK" : "missing-NAK", slave.st == SlaveRef::SEND_ACK ? "own-address good-CRC" : "own-address bad-CRC first-attempt", d, buf);
      slave.st = SlaveRef::FAILED;
    } else if (slave.st == SlaveRef::SEND_RESP) {
      violate("C15", "missing-response", slave.pos == 0 ? "start" : "middle", d, "ebusd stopped sending its registered response");
      slave.st = SlaveRef::FAILED;
    }
  }
  lastRxT = d.t;
  if (rd.bc.enhanced && d.arb) {
    // arbitration result reported by the adapter
    bool wasArmed = enhArbArmed;
    enhArbArmed = false;
    if (d.arb == refenh::ARB_WON) {
      // a result for a request that ebusd had cancelled in the meantime is a race of the adapter protocol, not a transmission of ebusd
      if (!anyPending(b) && wasArmed) violate("C03", "arbitration-without-request", "no-pending-request", d, "the adapter won an arbitration that ebusd had requested and not cancelled although no request is pending");
      pm.clear(); pmDead = true;
      startOwn(b);
      lastRxWasSyn = lastRxWasSynChunkEnd = false;
      return;
    }
    lockout = 2;
    // the winner's telegram follows
    pm.clear(); pmEsc = false; pmDead = false; pmComplete = false; pmCrc = 0; pmAttempt = 0;
    slave = SlaveRef();
    passiveRx(b, d);
    lastRxWasSyn = lastRxWasSynChunkEnd = false;
    return;
  }
  if (echoPending >= 0) {
    int sent = echoPending;
    EchoKind kind = echoKind;
    echoPending = -1;
    echoKind = EK_NONE;
    if (kind == EK_ARB) {
      if (b == sent) {
        pm.clear(); pmDead = true;
        startOwn(b);
        lastRxWasSyn = lastRxWasSynChunkEnd = false;
        return;
      }
      lockout = 2;
      res->counters["c03.arbitration_lost"]++;
      if (b == ref::SYN) { /* fall through to SYN handling */ }
      else {
        pm.clear(); pmEsc = false; pmDead = false; pmComplete = false; pmCrc = 0; pmAttempt = 0;
        slave = SlaveRef();
        passiveRx(b, d);
        lastRxWasSyn = lastRxWasSynChunkEnd = false;
        return;
      }
    } else if (kind == EK_OWN) {
      if (b != sent) {
        res->counters["c02.echo_mismatch_seen"]++;
        endOwn("echo mismatch");
        silent = true;
        silentWhy = "echo-mismatch";
        if (b != ref::SYN) { lastRxWasSyn = lastRxWasSynChunkEnd = false; return; }
      } else {
        for (auto& c : cands) c.onEchoOk(b);
        noteValidIfAny();
        if (!cands.empty() && cands[0].st == MasterRef::DONE) { own = false; cands.clear(); }
        if (b != ref::SYN) { lastRxWasSyn = lastRxWasSynChunkEnd = false; return; }
      }
    } else if (kind == EK_AUTOSYN) {
      if (b == ref::SYN) isSynGenerator = true;
      else { silent = true; silentWhy = "autosyn-echo-mismatch"; lastRxWasSyn = lastRxWasSynChunkEnd = false; return; }
    } else if (kind == EK_ANSWER) {
      if (b != sent) {
        slave.st = SlaveRef::FAILED;
        silent = true;
        silentWhy = "echo-mismatch";
      } else if (slave.st == SlaveRef::SEND_ACK) {
        if (slave.toMaster) { slave.st = SlaveRef::DONE; slave.completed = true; nAnswered++; }
        else { slave.st = SlaveRef::SEND_RESP; slave.pos = 0; }
      } else if (slave.st == SlaveRef::SEND_NAK) {
        // the requester repeats the command once
        slave.st = SlaveRef::NONE;
        pm.clear(); pmEsc = false; pmDead = false; pmComplete = false; pmCrc = 0; pmAttempt = 1;
      } else if (slave.st == SlaveRef::SEND_RESP) {
        slave.pos++;
        if (slave.pos >= slave.wire.size()) slave.st = SlaveRef::WAIT_RESP_ACK;
      }
      if (b != ref::SYN) { lastRxWasSyn = lastRxWasSynChunkEnd = false; return; }
    } else {
      if (b != ref::SYN) { lastRxWasSyn = lastRxWasSynChunkEnd = false; return; }
    }
  }
  if (b == ref::SYN) {
    if (own) {
      // a SYN from elsewhere ends the exchange
      endOwn("SYN received");
    }
    if (lockout > 0) lockout--;
    silent = false;
    lastRxWasSyn = true;
    lastRxWasSynChunkEnd = d.lastOfChunk;
    pm.clear(); pmEsc = false; pmDead = false; pmComplete = false; pmCrc = 0; pmAttempt = 0;
    if (slave.completed && !slave.reported) violate("C15", "answer-not-reported", "md_answer", d, "a completed answer exchange was not reported as md_answer");
    slave = SlaveRef();
    return;
  }
  lastRxWasSyn = lastRxWasSynChunkEnd = false;
  if (own) {
    for (auto& c : cands) c.onRx(b);
    noteValidIfAny();
    closeFailedOwn();
    return;
  }
  passiveRx(b, d);
}

void Monitor::onOther(const DevEv& d) {
  const Ev& e = rd.hist.evs[d.histIndex];
  if (e.kind == sim::EV_REQUEST) {
    ReqState& s = rq[e.id];
    auto it = rd.reqs.find(e.id);
    if (it == rd.reqs.end()) return;
    const ReqInfo& info = it->second;
    std::string key = ref::hex(info.master);
    char buf[240];
    switch (e.a) {
      case sim::RQ_SUBMIT:
        s.submitted = true;
        break;
      case sim::RQ_NOTIFY: {
        s.notifies++;
        if (s.finalNotified) {
          snprintf(buf, sizeof(buf), "request %llu (%s) notified again after its final notification", static_cast<unsigned long long>(e.id), info.kind.c_str());
          violate("C04", "notified-twice", info.kind, d, buf);
        }
        if (e.s.find("POISONED") != std::string::npos) violate("C04", "touched-after-destruction", info.kind, d, "notify() on a destroyed request");
        if (e.s.find("final") != std::string::npos) s.finalNotified = true;
        s.lastResult = static_cast<int>(e.b);
        s.lastSlave = e.bytes;
        if (e.b > 0) {
          // RESULT_CONTINUE / RESULT_EMPTY are intermediate codes of the receive path, not a definite result of a request
          snprintf(buf, sizeof(buf), "request %llu (%s) notified with the intermediate code %lld instead of a definite result", static_cast<unsigned long long>(e.id), info.kind.c_str(), static_cast<long long>(e.b));
          violate("C04", "indefinite-result", info.kind, d, buf);
        }
        auto& q = validAwaitingNotify[key];
        if (e.b == 0) {
          if (q.empty()) {
            snprintf(buf, sizeof(buf), "request %s notified with success but no valid exchange for it was seen on the device", key.c_str());
            if (ownJudged) violate("C02", "false-success", ref::isMaster(info.master[1]) ? "MM" : info.master[1] == ref::BROADCAST ? "BC" : "MS", d, buf);
          } else {
            Bytes sl = q.front();
            q.pop_front();
            if (sl != e.bytes) {
              snprintf(buf, sizeof(buf), "request %s: reported slave data %s, reference %s", key.c_str(), ref::hex(e.bytes).c_str(), ref::hex(sl).c_str());
              violate("C02", "wrong-slave-data", "notify", d, buf);
            }
          }
        } else if (!q.empty()) {
          snprintf(buf, sizeof(buf), "request %s completed with error %lld although its exchange was valid", key.c_str(), static_cast<long long>(e.b));
          violate("C02", "false-failure", "notify", d, buf);
          q.pop_front();
        }
        break;
      }
      case sim::RQ_RETURN:
        s.returned = true;
        if (info.kind == "sendwait") {
          auto& q = validAwaitingNotify[key];
          if (e.b == 0) {
            if (q.empty()) {
              snprintf(buf, sizeof(buf), "sendAndWait(%s) returned success but no valid exchange for it was seen on the device", key.c_str());
              if (ownJudged) violate("C02", "false-success", "sendAndWait", d, buf);
            } else {
              Bytes sl = q.back();
              q.clear();
              if (sl != e.bytes) {
                snprintf(buf, sizeof(buf), "sendAndWait(%s): returned slave data %s, reference %s", key.c_str(), ref::hex(e.bytes).c_str(), ref::hex(sl).c_str());
                violate("C02", "wrong-slave-data", "sendAndWait", d, buf);
              }
            }
          } else if (!q.empty()) {
            snprintf(buf, sizeof(buf), "sendAndWait(%s) returned error %lld although a valid exchange took place", key.c_str(), static_cast<long long>(e.b));
            violate("C02", "false-failure", "sendAndWait", d, buf);
            q.clear();
          }
        } else if (info.kind == "addwait") {
          if (!s.finalNotified && e.b != -2 /* rejected in read-only mode */) {
            snprintf(buf, sizeof(buf), "addRequest(wait) for %s returned (result %lld) without a final notification", key.c_str(), static_cast<long long>(e.b));
            violate("C04", "released-without-completion", "addwait", d, buf);
          }
          if (s.finalNotified && (e.b != s.lastResult || e.bytes != s.lastSlave)) {
            violate("C04", "wrong-result-delivered", "addwait", d, "waiter released with a result that is not the one its request was notified with");
          }
          if (!s.finalNotified) s.rejected = true;
        } else {
          s.rejected = true;   // fire: only recorded when addRequest refused it
        }
        break;
      case sim::RQ_DESTROY:
        if (s.destroyed) violate("C04", "destroyed-twice", info.kind, d, "request destroyed twice");
        s.destroyed = true;
        if (info.kind == "fire" && !s.finalNotified && !s.rejected && !rd.handlerDeleted) {
          // destroyed by the handler without ever being completed (only legal at handler destruction)
          bool atShutdown = false;
          for (size_t k = d.histIndex; k < rd.hist.evs.size(); k++) if (rd.hist.evs[k].kind == sim::EV_NOTE && rd.hist.evs[k].s == "handler deleted") atShutdown = true;
          if (!atShutdown) violate("C04", "destroyed-without-completion", "fire", d, "fire-and-forget request deleted without a final notification");
        }
        break;
    }
    return;
  }
  if (e.kind == sim::EV_MESSAGE) {
    if (e.a == 1) {  // md_send
      std::string key = ref::hex(e.bytes);
      auto it = validAwaitingMsg.find(key);
      if (it == validAwaitingMsg.end() || it->second <= 0) {
        if (ownJudged) violate("C02", "sent-message-without-valid-exchange", "md_send", d, "md_send reported for " + key + " without a valid exchange");
      } else {
        it->second--;
      }
    } else if (e.a == 2) {  // md_answer
      // the notification is issued when the exchange completes: after the requester's ACK (slave) or after the own ACK (master)
      if (!slave.completed || slave.reported) violate("C15", "answer-reported-without-completion", slave.reported ? "twice" : "md_answer", d, "md_answer reported although the answer exchange did not complete (or twice)");
      slave.reported = true;
    }
    return;
  }
  if (e.kind == sim::EV_FAULT && (e.s == "signal_off")) return;
}

void Monitor::run() {
  std::vector<DevEv> evs = extract(rd, res);
  bool dbg = getenv("SIM_DEBUG") != nullptr;
  for (const DevEv& d : evs) {
    if (dbg && d.type != DevEv::OTHER) fprintf(stderr, "MON %.3f type=%d b=%02x arb=%d last=%d | own=%d echo=%d kind=%d silent=%d gen=%d lockout=%d slave=%d\n", d.t / 1e6, d.type, d.b, d.arb, d.lastOfChunk, own, echoPending, echoKind, silent, isSynGenerator, lockout, slave.st);
    switch (d.type) {
      case DevEv::TX: onTx(d); break;
      case DevEv::RX: onRx(d); break;
      case DevEv::ARBSTART:
        if (rd.hc.readOnly) violate("C03", "write-in-readonly", "arbitration-request", d, "arbitration requested in read-only mode");
        if (!anyPending(d.b)) violate("C03", "arbitration-without-request", "no-pending-request", d, "arbitration requested from the adapter although no request is pending");
        if (lockout > 1) violate("C03", "arbitration-too-early-after-loss", "first-syn-after-lost-arbitration", d, "arbitration requested for the first SYN after a lost arbitration");
        enhArbArmed = true;
        enhArbAddr = d.b;
        break;
      case DevEv::ARBCANCEL: enhArbArmed = false; break;
      case DevEv::TIMEOUT:
        if (echoPending >= 0) {
          // ebusd waited for its echo in vain
          if (echoKind == EK_OWN || echoKind == EK_ARB) { endOwn("echo timeout"); }
          if (echoKind == EK_ANSWER) slave.st = SlaveRef::FAILED;
          echoPending = -1;
          echoKind = EK_NONE;
          silent = true;
          silentWhy = "echo-timeout";
        } else if (own) {
          bool waiting = !cands.empty() && (cands[0].st == MasterRef::WAIT_ACK || cands[0].st == MasterRef::RECV_RESP);
          if (waiting) { endOwn("timeout"); silent = true; silentWhy = "receive-timeout"; }
        } else if (slave.st == SlaveRef::WAIT_RESP_ACK || slave.st == SlaveRef::WAIT_REPEAT) {
          slave.st = SlaveRef::FAILED;
        } else if (!pm.empty() && !pmComplete) {
          pmDead = true;   // a passive telegram timed out
        }
        break;
      case DevEv::IOERR:
      case DevEv::CLOSED:
      case DevEv::OPENED:
        resetBusKnowledge(d.type == DevEv::IOERR ? "device-error" : d.type == DevEv::CLOSED ? "device-closed" : "device-opened");
        if (d.type == DevEv::OPENED) { lockout = 0; lastRxT = -1; }   // the SYN generator role may persist across a reopen
        break;
      case DevEv::OTHER: onOther(d); break;
    }
    // valid exchanges must be reported before the next exchange can begin; checked lazily at SYN symbols
    if (d.type == DevEv::RX && d.b == ref::SYN) {
      for (auto& q : validAwaitingNotify) {
        // a sendAndWait caller picks its result up asynchronously; only notify based requests are strict
        (void)q;
      }
    }
  }
  // end of run: every valid exchange must have been reported as success to someone
  for (auto& q : validAwaitingNotify) {
    if (q.second.empty()) continue;
    bool stillWaiting = false;
    for (auto& r : rd.reqs) if (ref::hex(r.second.master) == q.first && r.second.kind == "sendwait" && r.second.returnT < 0) stillWaiting = true;
    if (stillWaiting) continue;
    DevEv d;
    d.t = rd.endT;
    violate("C02", "success-not-reported", "end-of-run", d, "a valid exchange for " + q.first + " was never reported as success");
  }
  for (auto& q : validAwaitingMsg) {
    if (q.second > 0) {
      DevEv d;
      d.t = rd.endT;
      violate("C02", "sent-message-missing", "md_send", d, "valid exchange " + q.first + " was not reported as sent message");
    }
  }
  // C04 end-of-run accounting
  bool allDone = true;
  for (auto& r : rd.reqs) {
    const ReqInfo& info = r.second;
    ReqState& s = rq[r.first];
    if (!s.submitted) continue;
    if (s.rejected) continue;
    bool done = info.kind == "sendwait" ? s.returned : info.kind == "addwait" ? s.returned : (s.finalNotified && (s.destroyed || !rd.handlerDeleted));
    if (info.kind == "fire" && s.finalNotified && !s.destroyed && rd.handlerDeleted) {
      DevEv d; d.t = rd.endT;
      violate("C04", "request-leaked", "fire", d, "a completed fire-and-forget request was never destroyed");
    }
    if (!done && rd.endT - std::max(rd.lastFaultT, info.submitT) < rd.settleNs - 1000000000LL) {
      // the run ended (hard limit) before the liveness bound had elapsed for this request: not decided
      allDone = false;
      res->counters["c04.undecided_at_end"]++;
      continue;
    }
    if (!done) {
      allDone = false;
      DevEv d; d.t = rd.endT;
      char buf[200];
      snprintf(buf, sizeof(buf), "request %llu (%s %s) submitted at %.1f ms was not completed %.1f s after the last fault", static_cast<unsigned long long>(r.first),
               info.kind.c_str(), ref::hex(info.master).c_str(), s.submitted ? info.submitT / 1e6 : -1.0, (rd.endT - std::max(rd.lastFaultT, info.submitT)) / 1e9);
      violate("C04", "request-never-completed", info.kind, d, buf);
    }
  }
  (void)allDone;
  res->counters["c02.exchanges"] += nExchanges;
  res->counters["c02.valid_exchanges"] += nValid;
  res->counters["c15.answers_completed"] += nAnswered;
  if (nExchanges > 0) res->nontrivial = true;
}

}  // namespace

void checkActive(const RunData& rd, hz::RunResult* res) {
  Monitor m(rd, res);
  m.run();
}

}  // namespace l1
