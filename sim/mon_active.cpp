// C02 C03 C04 C15 oracles over the device level history (placeholder, filled in below)
#include "h_l1.h"
namespace l1 {
void checkActive(const RunData& rd, hz::RunResult* res) { (void)rd; (void)res; }
}
