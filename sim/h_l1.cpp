// L1 harness: the real DirectProtocolHandler + PlainDevice/EnhancedDevice + FileTransport + Queue + WaitThread
// on the simulated kernel and bus.
#include "h_l1.h"

#include <stdio.h>
#include <stdlib.h>
#include <unistd.h>

#include "lib/ebus/device_trans.h"
#include "lib/ebus/protocol.h"
#include "lib/ebus/protocol_direct.h"
#include "lib/ebus/transport.h"
#include "lib/utils/log.h"

using namespace ebusd;  // NOLINT

namespace l1 {

using sim::MS;
using sim::US;
using sim::now;

namespace {

class SimTransport : public FileTransport {
 public:
  SimTransport(simbus::Port* port, unsigned int extraLatency) : FileTransport("/dev/simtty", extraLatency, false), m_port(port) {}
  string getTransportInfo() const override { return "sim"; }
  result_t openInternal() override {
    int fd = m_port->open();
    if (fd < 0) return RESULT_ERR_NOTFOUND;
    m_fd = fd;
    return RESULT_OK;
  }
 protected:
  void checkDevice() override {}
 private:
  simbus::Port* m_port;
};

struct Ctx {
  RunData rd;
  simbus::Bus* bus = nullptr;
  ProtocolHandler* handler = nullptr;
  std::vector<ReqInfo> emptyPolls;   // fire requests to submit from ps_empty notifications
  size_t emptyPollPos = 0;
  uint64_t liveRequests = 0, created = 0, destroyed = 0;
};
Ctx* g = nullptr;

ref::Bytes toBytes(const SymbolString& s) {
  ref::Bytes b;
  for (size_t i = 0; i < s.size(); i++) b.push_back(s[i]);
  return b;
}

void fillMaster(const ref::Bytes& b, MasterSymbolString* m) {
  m->clear();
  for (uint8_t x : b) m->push_back(x);
}

class TestRequest : public BusRequest {
 public:
  TestRequest(uint64_t id, const ref::Bytes& master, bool deleteOnFinish, int restarts)
      : BusRequest(m_own, deleteOnFinish), m_id(id), m_restarts(restarts) {
    fillMaster(master, &m_own);
    g->created++;
    g->liveRequests++;
  }
  ~TestRequest() override {
    g->destroyed++;
    g->liveRequests--;
    g->rd.hist.add(now(), sim::EV_REQUEST).id = m_id;
    g->rd.hist.evs.back().a = sim::RQ_DESTROY;
    m_poison = 0xdead;
  }
  bool notify(result_t result, const SlaveSymbolString& slave) override {
    sim::Ev& e = g->rd.hist.add(now(), sim::EV_REQUEST);
    e.id = m_id;
    e.a = sim::RQ_NOTIFY;
    bool restart = false;
    // like PollRequest/ScanRequest: never ask for a restart when the signal is lost (the handler drains the queue then)
    if (m_restarts > 0 && result != RESULT_ERR_NO_SIGNAL) { m_restarts--; restart = true; }
    e.b = result;
    e.bytes = toBytes(slave);
    e.s = restart ? "restart" : "final";
    if (m_poison == 0xdead) e.s += " POISONED";
    m_result = result;
    m_slave = toBytes(slave);
    sim::tracef("req.notify", "%llu %d %s", static_cast<unsigned long long>(m_id), result, e.s.c_str());
    return restart;
  }
  result_t m_result = RESULT_ERR_NO_SIGNAL;
  ref::Bytes m_slave;

 private:
  MasterSymbolString m_own;
  uint64_t m_id;
  int m_restarts;
  unsigned m_poison = 0;
};

void recordSubmit(const ReqInfo& r) {
  sim::Ev& e = g->rd.hist.add(now(), sim::EV_REQUEST);
  e.id = r.id;
  e.a = sim::RQ_SUBMIT;
  e.bytes = r.master;
  e.s = r.kind;
  g->rd.reqs[r.id].submitT = now();
}
void recordReturn(const ReqInfo& r, int result, const ref::Bytes& slave) {
  sim::Ev& e = g->rd.hist.add(now(), sim::EV_REQUEST);
  e.id = r.id;
  e.a = sim::RQ_RETURN;
  e.b = result;
  e.bytes = slave;
  e.s = r.kind;
  g->rd.reqs[r.id].returnT = now();
  sim::tracef("req.return", "%llu %d", static_cast<unsigned long long>(r.id), result);
}

class Recorder : public ProtocolListener {
 public:
  void notifyProtocolStatus(ProtocolState state, result_t result) override {
    sim::Ev& e = g->rd.hist.add(now(), sim::EV_STATUS);
    e.a = state;
    e.b = result;
    if (state == ps_empty && g->emptyPollPos < g->emptyPolls.size()) {
      // like BusHandler: queue a fire-and-forget (poll style) request from within the bus thread
      const ReqInfo& r = g->emptyPolls[g->emptyPollPos];
      if (now() >= r.atMs * MS) {
        g->emptyPollPos++;
        recordSubmit(r);
        auto* req = new TestRequest(r.id, r.master, true, r.restarts);
        result_t ret = g->handler->addRequest(req, false);
        if (ret != RESULT_OK) {
          delete req;
          recordReturn(r, ret, ref::Bytes());
        }
      }
    }
  }
  void notifyProtocolSeenAddress(symbol_t address) override { sim::count("l1.seen_address"); (void)address; }
  void notifyProtocolMessage(MessageDirection direction, const MasterSymbolString& master,
                             const SlaveSymbolString& slave) override {
    sim::Ev& e = g->rd.hist.add(now(), sim::EV_MESSAGE);
    e.a = direction;
    e.bytes = toBytes(master);
    e.bytes2 = toBytes(slave);
    sim::tracef("msg", "%d %s/%s", direction, ref::hex(e.bytes).c_str(), ref::hex(e.bytes2).c_str());
  }
};

// the real handler; only the (virtual) device status notification is additionally recorded
class TapHandler : public DirectProtocolHandler {
 public:
  TapHandler(const ebus_protocol_config_t config, Device* device, ProtocolListener* listener)
      : DirectProtocolHandler(config, device, listener) {}
  void notifyDeviceData(const symbol_t* data, size_t len, bool received) override {
    // per symbol marker: tells the oracles at which point of the history ebusd's protocol layer got each symbol
    for (size_t i = 0; i < len; i++) {
      sim::Ev& e = g->rd.hist.add(now(), received ? sim::EV_RXSYM : sim::EV_TXSYM);
      e.a = data[i];
    }
    DirectProtocolHandler::notifyDeviceData(data, len, received);
  }
  void notifyDeviceStatus(bool error, const char* message) override {
    sim::Ev& e = g->rd.hist.add(now(), sim::EV_DEVSTATUS);
    e.a = error ? 1 : 0;
    e.s = message ? message : "";
    DirectProtocolHandler::notifyDeviceStatus(error, message);
  }
};

void callerThread(ReqInfo r) {
  int64_t at = r.atMs * MS;
  if (at > now()) sim::sleepFor(at - now());
  recordSubmit(r);
  if (r.kind == "sendwait") {
    MasterSymbolString master;
    fillMaster(r.master, &master);
    SlaveSymbolString slave;
    result_t ret = g->handler->sendAndWait(master, &slave);
    recordReturn(r, ret, toBytes(slave));
  } else if (r.kind == "addwait") {
    auto* req = new TestRequest(r.id, r.master, false, r.restarts);
    result_t ret = g->handler->addRequest(req, true);
    int result = ret == RESULT_OK ? req->m_result : ret;
    ref::Bytes slave = req->m_slave;
    if (ret != RESULT_OK) g->rd.hist.add(now(), sim::EV_NOTE).s = "addRequest(wait) failed";
    delete req;
    recordReturn(r, result, slave);
  } else {  // fire
    auto* req = new TestRequest(r.id, r.master, true, r.restarts);
    result_t ret = g->handler->addRequest(req, false);
    if (ret != RESULT_OK) {
      delete req;
      recordReturn(r, ret, ref::Bytes());
    }
  }
}

int ioFaultCode(const std::string& kind, char op) {
  if (kind == "readerr" && op == 'r') return EIO;
  if (kind == "readzero" && op == 'r') return -1;
  if (kind == "readagain" && op == 'r') return EAGAIN;   // readiness was reported but there is nothing to read (legal for poll + read)
  if (kind == "writeerr" && op == 'w') return EIO;
  if (kind == "writeshort" && op == 'w') return -1;
  if (kind == "pollerr" && op == 'p') return -3;
  if (kind == "pollhup" && op == 'p') return -2;
  if (kind == "polleintr" && op == 'p') return EINTR;
  if (kind == "pollearly" && op == 'p') return -1;
  return 0;
}

}  // namespace

static void runL1(const plan::Plan& p, hz::RunResult* res, bool verbose) {
  Ctx ctx;
  g = &ctx;
  RunData& rd = ctx.rd;
  plan::Line c = p.cfg();
  sim::KConfig kc = hz::kernelConfigFrom(p, verbose);
  sim::setAbortHandler([res](const char* verdict, const std::string& detail) {
    res->verdict = verdict;
    std::string v = verdict;
    if (v == "infra") res->violate("INFRA", "infra", detail, detail);
    else res->violate("C20", v, v == "deadlock" ? "deadlock" : v, detail);
    res->verdict = verdict;
    hz::finishRun(res);
  });
  sim::kernelInit(kc);

  // handler configuration
  rd.hc.own = static_cast<uint8_t>(c.num("own", 0x31));
  rd.hc.readOnly = c.num("readonly", 0) != 0;
  rd.hc.answer = c.num("answer", 0) != 0;
  rd.hc.generateSyn = c.num("gensyn", 0) != 0;
  rd.hc.lockCount = static_cast<unsigned>(c.num("lockcount", 0));
  rd.hc.acquireTimeout = static_cast<unsigned>(c.num("acqtimeout", 10));
  rd.hc.receiveTimeout = static_cast<unsigned>(c.num("recvtimeout", 25));
  rd.hc.acquireRetries = static_cast<unsigned>(c.num("acqretries", 3));
  rd.hc.sendRetries = static_cast<unsigned>(c.num("sendretries", 2));
  rd.hc.extraLatency = static_cast<unsigned>(c.num("extralat", 0));
  rd.bc = simbus::busConfigFromLine(c);
  rd.bc.ownAddress = rd.hc.own;

  simbus::Bus bus(rd.bc, &rd.hist);
  ctx.bus = &bus;
  uint64_t nextId = 1;
  std::vector<ReqInfo> callers;
  struct IoFault { uint64_t io; std::string kind; bool fired; };
  auto* ioFaults = new std::vector<IoFault>();
  struct TimedFault { int64_t atMs; plan::Line l; };
  std::vector<TimedFault> timed;
  int64_t lastFaultMs = 0;
  for (auto& l : p.lines) {
    if (l.kind == "bus") {
      bus.items.push_back(simbus::itemFromLine(l, nextId++));
    } else if (l.kind == "react") {
      bus.reacts.push_back(simbus::reactFromLine(l, nextId++));
    } else if (l.kind == "req") {
      ReqInfo r;
      r.id = static_cast<uint64_t>(l.num("id", static_cast<long long>(nextId++)));
      r.kind = l.sub;
      r.master = ref::unhex(l.get("master"));
      r.restarts = static_cast<int>(l.num("restarts", 0));
      r.atMs = l.num("at", 0);
      r.fromEmpty = l.num("onempty", 0) != 0;
      if (r.master.size() < 5) continue;
      rd.reqs[r.id] = r;
      if (r.fromEmpty) ctx.emptyPolls.push_back(r); else callers.push_back(r);
    } else if (l.kind == "fault") {
      if (l.has("io")) {
        ioFaults->push_back(IoFault{static_cast<uint64_t>(l.num("io")), l.sub, false});
      } else {
        timed.push_back(TimedFault{l.num("at", 0), l});
        if (l.num("at", 0) + l.num("ms", 0) > lastFaultMs) lastFaultMs = l.num("at", 0) + l.num("ms", 0);
      }
    } else if (l.kind == "answer") {
      AnswerInfo a;
      a.src = l.has("src") ? static_cast<int>(l.num("src")) : -1;
      a.dst = static_cast<uint8_t>(l.num("dst"));
      a.pb = static_cast<uint8_t>(l.num("pb"));
      a.sb = static_cast<uint8_t>(l.num("sb"));
      a.id = ref::unhex(l.get("id"));
      a.data = ref::unhex(l.get("data"));
      rd.answers.push_back(a);
    }
  }
  // I/O fault enumeration: index over all I/O calls on the device fd (cumulative over reopen)
  auto* ioCounter = new uint64_t(0);
  sim::History* hist = &rd.hist;
  int64_t* lastFaultT = &rd.lastFaultT;
  bus.port.fault = [ioFaults, ioCounter, hist, lastFaultT](char op, uint64_t) -> int {
    uint64_t idx = (*ioCounter)++;
    for (auto& f : *ioFaults) {
      if (f.fired) continue;
      // a fault waits for the first call of its kind at or after its index
      if (idx >= f.io) {
        int code = ioFaultCode(f.kind, op);
        if (code != 0) {
          f.fired = true;
          sim::count("fault." + f.kind);
          sim::Ev& e = hist->add(now(), sim::EV_FAULT);
          e.s = f.kind;
          e.a = static_cast<int64_t>(idx);
          *lastFaultT = now();
          return code;
        }
      }
    }
    return 0;
  };

  // logging: errors are formatted (code paths run) but go to /dev/null unless verbose
  if (getenv("SIM_EBUSD_LOG")) {
    // prints ebusd's own log; this adds intercepted calls and therefore changes the execution
    setFacilitiesLogLevel(1 << lf_COUNT, ll_debug);
  } else {
    int lvl = static_cast<int>(c.num("loglevel", 0));
    if (lvl == 0) { closeLogFile(); }
    else { setLogFile("/dev/null"); setFacilitiesLogLevel(1 << lf_COUNT, static_cast<LogLevel>(lvl)); }
  }

  ebus_protocol_config_t pc = {};
  pc.device = "sim";
  pc.noDeviceCheck = true;
  pc.readOnly = rd.hc.readOnly;
  pc.extraLatency = rd.hc.extraLatency;
  pc.ownAddress = rd.hc.own;
  pc.answer = rd.hc.answer;
  pc.busLostRetries = rd.hc.acquireRetries;
  pc.failedSendRetries = rd.hc.sendRetries;
  pc.busAcquireTimeout = rd.hc.acquireTimeout;
  pc.slaveRecvTimeout = rd.hc.receiveTimeout;
  pc.lockCount = rd.hc.lockCount;
  pc.generateSyn = rd.hc.generateSyn;
  pc.initialSend = false;
  Recorder recorder;
  auto* transport = new SimTransport(&bus.port, rd.hc.extraLatency);
  Device* device = rd.bc.enhanced ? static_cast<Device*>(new EnhancedDevice(transport)) : static_cast<Device*>(new PlainDevice(transport));
  auto* handler = new TapHandler(pc, device, &recorder);
  ctx.handler = handler;
  for (auto& a : rd.answers) {
    SlaveSymbolString ans;
    for (uint8_t x : a.data) ans.push_back(x);
    a.accepted = handler->setAnswer(a.src < 0 ? SYN : static_cast<symbol_t>(a.src), a.dst, a.pb, a.sb,
                                    a.id.empty() ? nullptr : a.id.data(), a.id.size(), ans);
  }
  // timed faults
  for (auto& tf : timed) {
    plan::Line l = tf.l;
    simbus::Bus* b = &bus;
    RunData* prd = &rd;
    sim::eventAt(tf.atMs * MS, [l, b, prd]() {
      prd->lastFaultT = now();
      if (l.sub == "stall") {
        std::string th = l.get("thread", "bushandler");
        sim::stallThread(th.c_str(), l.num("ms", 50) * MS);
        sim::Ev& e = prd->hist.add(now(), sim::EV_STALL);
        e.a = l.num("ms", 50);
        e.s = th;
        if (th == "bushandler") prd->stalls.push_back(StallWin{now(), now() + l.num("ms", 50) * MS});
      } else if (l.sub == "openfail") {
        b->port.openFailures += static_cast<int>(l.num("n", 1));
      } else if (l.sub == "hup") {
        if (b->port.stream()) { b->port.stream()->hup = true; sim::count("fault.hup"); prd->hist.add(now(), sim::EV_FAULT).s = "hup"; }
      } else if (l.sub == "adapter") {
        b->port.adapterInject(ref::unhex(l.get("raw")));
        sim::count("fault.adapter_inject");
        prd->hist.add(now(), sim::EV_FAULT).s = "adapter_inject " + l.get("raw");
      }
    });
  }

  bus.start();
  result_t openResult = handler->open();
  (void)openResult;
  handler->start("bushandler");
  std::vector<int> tids;
  for (auto& r : callers) {
    ReqInfo rc = r;
    tids.push_back(sim::threadSpawn("caller", [rc]() { callerThread(rc); }));
  }

  // run until the plan is consumed and all requests are done, at most maxDuration
  int64_t minDur = c.num("minms", 200) * MS;
  int64_t settle = c.num("settlems", 60000) * MS;
  {
    // liveness bound: every queued request may need all its arbitration and send retries, each after a full lock period
    int64_t attempts = 0;
    for (auto& r : rd.reqs) attempts += (r.second.restarts + 1) * static_cast<int64_t>(rd.hc.sendRetries + 1) * (rd.hc.acquireRetries + 1);
    int64_t worst = attempts * (static_cast<int64_t>(rd.hc.lockCount) + 3) * 50 * MS * 3 / 2 + 10000 * MS;
    if (worst > settle) settle = worst;
  }
  rd.settleNs = settle;
  int64_t lastReqMs = 0;
  for (auto& r : rd.reqs) if (r.second.atMs > lastReqMs) lastReqMs = r.second.atMs;
  auto allDone = [&]() {
    if (!bus.itemsExhausted()) return false;
    if (ctx.emptyPollPos < ctx.emptyPolls.size() && !rd.hc.readOnly) return false;
    for (auto& r : rd.reqs) {
      const ReqInfo& q = r.second;
      if (q.kind == "fire") continue;  // checked through liveRequests
      if (q.returnT < 0) return false;
    }
    return ctx.liveRequests == 0;
  };
  int64_t quietSince = -1;
  for (;;) {
    sim::sleepFor(20 * MS);
    int64_t t = now();
    bool faultsOver = t >= lastFaultMs * MS && t >= lastReqMs * MS;
    if (t >= minDur && faultsOver && allDone()) {
      if (quietSince < 0) quietSince = t;
      if (t - quietSince >= 150 * MS) break;
    } else {
      quietSince = -1;
    }
    int64_t base = std::max<int64_t>(std::max<int64_t>(rd.lastFaultT, lastFaultMs * MS), lastReqMs * MS);
    for (auto& r : rd.reqs) base = std::max<int64_t>(base, r.second.submitT);   // requests submitted from callbacks have no planned time
    if (faultsOver && bus.itemsExhausted() && t - base > settle) break;
    if (t > 3600 * sim::SEC) break;
  }
  rd.endT = now();
  bool done = allDone();
  rd.hist.add(now(), sim::EV_NOTE).s = done ? "end: all done" : "end: NOT all done";
  // orderly shutdown only when no caller is still blocked inside the handler
  bool callersBack = true;
  for (auto& r : rd.reqs) if (r.second.kind != "fire" && r.second.returnT < 0) callersBack = false;
  if (callersBack) {
    for (int t : tids) sim::threadJoin(t);
    handler->stop();
    handler->join();
    delete handler;
    rd.handlerDeleted = true;
    rd.hist.add(now(), sim::EV_NOTE).s = "handler deleted";
    if (ctx.liveRequests != 0) {
      char buf[96];
      snprintf(buf, sizeof(buf), "%llu request object(s) never destroyed", static_cast<unsigned long long>(ctx.liveRequests));
      res->violate("C04", "request-leaked", "request object alive after handler destruction", buf);
    }
  }
  // oracles
  checkPassive(rd, res);
  checkActive(rd, res);
  res->counters["bus.symbols"] += bus.nSymbols;
  res->counters["bus.collisions"] += bus.nCollisions;
  res->counters["bus.items_done"] += bus.nItemsDone;
  res->counters["bus.ebusd_exchanges"] += bus.nEbusdExchanges;
  res->counters["l1.requests"] += rd.reqs.size();
  res->counters["l1.history_events"] += rd.hist.evs.size();
  if (verbose) fputs(rd.hist.dump().c_str(), stderr);
  if (res->sample.empty()) {
    char buf[200];
    snprintf(buf, sizeof(buf), "family=%s items=%llu symbols=%llu reqs=%zu enhanced=%d", c.get("family").c_str(),
             static_cast<unsigned long long>(bus.nItemsDone), static_cast<unsigned long long>(bus.nSymbols), rd.reqs.size(), rd.bc.enhanced ? 1 : 0);
    res->sample = buf;
  }
  hz::finishRun(res);
}

struct RegL1 {
  RegL1() { hz::registerHarness("l1", runL1); }
} g_regL1;

}  // namespace l1
