// Oracles of the L3 families.  Every expectation is computed here or in the generator from the plan (reference
// implementations of the stated rules), never by calling code of /repo.
#include <stdio.h>
#include <stdlib.h>
#include <string.h>

#include <algorithm>

#include "h_l3.h"

namespace l3 {

using ref::Bytes;

static std::string unhexText(const std::string& h) {
  Bytes b = ref::unhex(h);
  return std::string(b.begin(), b.end());
}
static std::string hexText(const std::string& s) { return ref::hex(Bytes(s.begin(), s.end())); }

// ---- reference: TCP command line splitting as stated in C18 ----
std::vector<std::string> refSplit(const std::string& line) {
  std::vector<std::string> tokens;
  size_t i = 0;
  for (;;) {
    size_t j = line.find(' ', i);
    if (j == std::string::npos) { tokens.push_back(line.substr(i)); break; }
    tokens.push_back(line.substr(i, j - i));
    i = j + 1;
  }
  // a trailing blank produces no further (empty) token for a line reader
  std::vector<std::string> args;
  size_t n = tokens.size();
  // std::getline based splitting yields no final empty token
  if (n > 0 && tokens[n - 1].empty() && line.size() > 0 && line[line.size() - 1] == ' ') { tokens.pop_back(); n--; }
  size_t k = 0;
  while (k < n) {
    const std::string& t = tokens[k];
    if (t.empty()) { k++; continue; }
    if (t[0] == '"' || t[0] == '\'') {
      char q = t[0];
      std::string acc = t.substr(1);
      if (!acc.empty() && acc[acc.size() - 1] == q) { acc.erase(acc.size() - 1); args.push_back(acc); k++; continue; }
      size_t j = k + 1;
      for (; j < n; j++) {
        acc += " " + tokens[j];
        if (!tokens[j].empty() && tokens[j][tokens[j].size() - 1] == q) { acc.erase(acc.size() - 1); break; }
      }
      args.push_back(acc);
      k = j + 1;
    } else {
      args.push_back(t);
      k++;
    }
  }
  return args;
}

// ---- reference: percent decoding, exactly once ----
static int hexv(char ch) { return ch >= '0' && ch <= '9' ? ch - '0' : ch >= 'a' && ch <= 'f' ? ch - 'a' + 10 : ch >= 'A' && ch <= 'F' ? ch - 'A' + 10 : -1; }
std::string refPercentDecode(const std::string& s, bool* hadInvalid) {
  std::string o;
  for (size_t i = 0; i < s.size(); i++) {
    if (s[i] == '%') {
      if (i + 2 < s.size() + 0 && hexv(s[i + 1]) >= 0 && hexv(s[i + 2]) >= 0) { o += static_cast<char>(hexv(s[i + 1]) * 16 + hexv(s[i + 2])); i += 2; continue; }
      if (hadInvalid) *hadInvalid = true;
    }
    o += s[i];
  }
  return o;
}

static std::string statusOf(const std::string& resp) {
  // "HTTP/1.0 200 OK"
  size_t sp = resp.find(' ');
  if (sp == std::string::npos || resp.compare(0, 5, "HTTP/") != 0) return "";
  return resp.substr(sp + 1, 3);
}
static std::string bodyOf(const std::string& resp) {
  size_t h = resp.find("\r\n\r\n");
  return h == std::string::npos ? "" : resp.substr(h + 4);
}

struct MsgModel {
  std::string name, circuit, level;
  bool write = false;
  uint8_t zz = 0, pb = 0, sb = 0;
  Bytes id;
  std::vector<std::pair<std::string, int>> fields;
  std::vector<std::pair<Bytes, int>> chain;
  int poll = 0;
  int masterLen = 0;   // bytes of master side parameters of a read message
};

static std::string decodeFields(const MsgModel& m, const Bytes& data) {
  std::string out;
  size_t off = 0;
  char buf[32];
  for (size_t i = 0; i < m.fields.size(); i++) {
    const std::string& t = m.fields[i].first;
    size_t len = static_cast<size_t>(m.fields[i].second);
    if (off + len > data.size()) return out + "<short>";
    if (i) out += ";";
    if (t == "UCH") { if (data[off] == 0xff) out += "-"; else { snprintf(buf, sizeof(buf), "%u", data[off]); out += buf; } }
    else if (t == "SCH") { if (data[off] == 0x80) out += "-"; else { snprintf(buf, sizeof(buf), "%d", static_cast<int8_t>(data[off])); out += buf; } }
    else if (t == "UIN") { unsigned v = data[off] | (data[off + 1] << 8); if (v == 0xffff) out += "-"; else { snprintf(buf, sizeof(buf), "%u", v); out += buf; } }
    else if (t == "ULG") { uint32_t v = data[off] | (data[off + 1] << 8) | (data[off + 2] << 16) | (static_cast<uint32_t>(data[off + 3]) << 24); if (v == 0xffffffffu) out += "-"; else { snprintf(buf, sizeof(buf), "%u", v); out += buf; } }
    else if (t == "HEX") { for (size_t k = 0; k < len; k++) { snprintf(buf, sizeof(buf), "%s%02x", k ? " " : "", data[off + k]); out += buf; } }
    else { for (size_t k = 0; k < len; k++) out += static_cast<char>(data[off + k]); }
    off += len;
  }
  return out;
}

static std::vector<std::string> tokens(const std::string& s, char sep) {
  std::vector<std::string> v;
  size_t i = 0;
  while (i <= s.size()) {
    size_t j = s.find(sep, i);
    if (j == std::string::npos) j = s.size();
    v.push_back(s.substr(i, j - i));
    i = j + 1;
  }
  return v;
}

static bool granted(const std::string& level, const std::string& levels) {
  if (level.empty()) return true;
  if (levels.empty()) return false;
  for (auto& t : tokens(levels, ';')) if (t == level || t == "*") return true;
  return false;
}

void checkL3(const plan::Plan& p, const RunData& rd, hz::RunResult* res) {
  plan::Line c = p.cfg();
  std::string family = c.get("family");
  uint64_t judged = 0;
  std::vector<const CmdRecord*> deferred;
  std::vector<const CmdRecord*> variantCmds;
  std::map<std::string, std::map<std::string, const CmdRecord*>> composeParts;
  for (const CmdRecord& r : rd.cmds) {
    // every command that was sent completely gets exactly one response
    if (r.doneT < 0 && r.tag != "noreply") {
      char buf[300];
      snprintf(buf, sizeof(buf), "client %d command #%d [%s] sent at %.1f ms got no response within the run (%.1f s)", r.client, r.index, r.request.substr(0, 80).c_str(),
               r.sentT / 1e6, rd.endT / 1e9);
      res->violate("C20", "no-response", r.http ? "http" : "tcp", buf);
      continue;
    }
    if (r.tag == "args") {
      // C18: the interpreter must have seen exactly the reference argument vector
      judged++;
      std::vector<std::string> args = refSplit(r.request);
      std::string expect;
      bool either = false;
      if (args.size() != 3) expect = "usage";
      else {
        const std::string& v = args[2];
        if (v.empty() || v.size() > 16) either = true;
        std::string padded = v;
        while (padded.size() < 16) padded += ' ';
        expect = hexText(padded);
      }
      if (either) { res->counters["c18.args_either"]++; continue; }
      bool ok = expect == "usage" ? r.response.compare(0, 13, "usage: encode") == 0 : r.response == expect;
      if (!ok) {
        std::string av;
        for (auto& a : args) av += "[" + a + "]";
        char buf[500];
        snprintf(buf, sizeof(buf), "line [%s]: reference argument vector %s, expected response %s, got [%s]", r.request.c_str(), av.c_str(), expect.c_str(), r.response.substr(0, 80).c_str());
        // classify for the signature
        std::string sig = "value-differs";
        if (expect == "usage") sig = "argument-count";
        else if (r.response.compare(0, 5, "usage") == 0) sig = "argument-count";
        else if (r.request.find("  ") != std::string::npos) sig = "repeated-blanks";
        res->violate("C18", "tcp-argument-vector", sig, buf);
      }
    } else if (r.tag == "probe" || r.tag == "expect") {
      judged++;
      std::string expect = unhexText(r.line.get("expect"));
      if (r.response != expect) {
        char buf[500];
        snprintf(buf, sizeof(buf), "probe [%s] answered [%s], a pristine instance answers [%s]", r.request.c_str(), r.response.substr(0, 100).c_str(), expect.c_str());
        std::string prop = r.line.get("prop", "C12");
        res->violate(prop, r.line.get("cls", "history-dependent-result"), r.line.get("sig", "probe"), buf);
      }
    } else if (r.tag == "compose") {
      composeParts[std::to_string(r.client) + "/" + r.line.get("group")][r.line.get("part")] = &r;
    } else if (r.tag == "read" || r.tag == "write" || r.tag == "writechain" || r.tag == "acl" || r.tag == "auth" || r.tag == "httpdata") {
      deferred.push_back(&r);
      if (r.tag == "auth") variantCmds.push_back(&r);
    } else if (r.tag == "variant") {
      variantCmds.push_back(&r);
    } else if (r.tag == "http") {
      judged++;
      // first line: GET <uri> HTTP/1.1
      std::string first = r.request.substr(0, r.request.find("\r\n"));
      size_t a = first.find(' '), b = first.rfind(" HTTP/");
      std::string uri = a != std::string::npos && b != std::string::npos && b > a ? first.substr(a + 1, b - a - 1) : "";
      bool invalidEsc = false;
      std::string dec = refPercentDecode(uri, &invalidEsc);
      std::string path = dec.substr(0, dec.find('?'));
      std::string status = statusOf(r.response), body = bodyOf(r.response);
      char buf[600];
      // root confinement: the sentinel outside the root is never served, whatever the URI
      if (!rd.sentinel.empty() && r.response.find(rd.sentinel) != std::string::npos) {
        snprintf(buf, sizeof(buf), "GET %s served the file outside the html root", uri.c_str());
        res->violate("C18", "html-root-escape", uri.find('%') != std::string::npos ? "percent-encoded" : "literal", buf);
        continue;
      }
      if (invalidEsc) { res->counters["c18.http_invalid_escape"]++; continue; }
      if (path.compare(0, 5, "/data") == 0 || path == "/datatypes" || path.compare(0, 10, "/templates") == 0 || path == "/raw" || path == "/decode") continue;
      bool escaping = path.empty() || path[0] != '/' || path.find("..") != std::string::npos || path.find("//") != std::string::npos;
      if (escaping) {
        if (status == "200") {
          snprintf(buf, sizeof(buf), "GET %s (decoded %s) was answered with 200", uri.c_str(), dec.c_str());
          res->violate("C18", "html-root-escape", "status-200-for-escaping-uri", buf);
        }
        continue;
      }
      std::string rel = path.substr(1);
      if (!rel.empty() && rel[rel.size() - 1] == '/') rel += "index.html";
      if (rel.empty()) rel = "index.html";
      auto it = rd.files.find(rel);
      // extension whitelist
      size_t dot = rel.find_last_of('.');
      std::string ext = dot == std::string::npos ? "" : rel.substr(dot + 1);
      static const char* okExt[] = {"html", "css", "js", "png", "jpg", "jpeg", "svg", "json", "yaml", "csv"};
      bool extOk = false;
      for (const char* e : okExt) if (ext == e) extOk = true;
      if (it != rd.files.end() && extOk) {
        if (status != "200" || body != it->second) {
          // which other file was served? (decoded twice / not at all)
          std::string what = status != "200" ? "status-" + status : "other-content";
          for (auto& f : rd.files) if (status == "200" && body == f.second) what = "served-" + f.first;
          snprintf(buf, sizeof(buf), "GET %s decodes once to %s which names %s, got status %s and %zu body bytes (%s)", uri.c_str(), dec.c_str(), rel.c_str(), status.c_str(), body.size(), what.c_str());
          res->violate("C18", "http-percent-decoding", uri.find('%') != std::string::npos ? "escaped-uri " + what : "plain-uri " + what, buf);
        }
      } else if (status == "200") {
        snprintf(buf, sizeof(buf), "GET %s decodes once to %s which names no served file, but got 200 with %zu body bytes", uri.c_str(), dec.c_str(), body.size());
        res->violate("C18", "http-percent-decoding", "served-nonexistent", buf);
      }
    }
  }
  // ---- C12: decoding fields together equals decoding each of them alone ----
  for (auto& g : composeParts) {
    auto& m = g.second;
    if (!m.count("a") || !m.count("b") || !m.count("ab")) continue;
    // a command whose whole result is the empty text answers with a word instead ("empty", "done")
    auto norm = [](const std::string& x) { return x == "empty" || x == "done" ? std::string() : x; };
    const std::string ra = norm(m["a"]->response), rb = norm(m["b"]->response), rab = m["ab"]->response;
    bool ea = ra.compare(0, 4, "ERR:") == 0, eb = rb.compare(0, 4, "ERR:") == 0, eab = rab.compare(0, 4, "ERR:") == 0;
    judged++;
    if (ea || eb) { if (!eab) res->counters["c12.compose_part_error_only"]++; continue; }
    if (ra.empty() || rb.empty()) { res->counters["c12.compose_empty_part"]++; continue; }   // ebusd leaves out a field without value (and its separator)
    if (eab || rab != ra + ";" + rb) {
      char buf[500];
      snprintf(buf, sizeof(buf), "[%s] -> [%s], [%s] -> [%s], but [%s] -> [%s]", m["a"]->request.c_str(), ra.c_str(), m["b"]->request.c_str(), rb.c_str(), m["ab"]->request.c_str(), rab.c_str());
      res->violate("C12", "field-dependent-result", "decode-together-differs", buf);
    }
  }
  // ---- bus facing checks (C09, C16): models from the plan ----
  if (!deferred.empty()) {
    std::map<std::string, MsgModel> msgs;
    std::map<std::string, std::pair<std::string, std::string>> users;   // name -> (secret, levels)
    std::string defaultLevels;
    for (auto& l : p.lines) {
      if (l.kind == "msg") {
        MsgModel m;
        m.name = l.get("name"); m.circuit = l.get("circuit"); m.level = l.get("level") == "-" ? "" : l.get("level");
        m.write = l.get("dir") == "w";
        m.zz = static_cast<uint8_t>(l.num("zz")); m.pb = static_cast<uint8_t>(l.num("pb")); m.sb = static_cast<uint8_t>(l.num("sb"));
        m.id = ref::unhex(l.get("id"));
        for (auto& t : tokens(l.get("fields"), ',')) { size_t c2 = t.find(':'); if (c2 != std::string::npos) m.fields.push_back(std::make_pair(t.substr(0, c2), atoi(t.c_str() + c2 + 1))); }
        if (l.has("chain")) for (auto& t : tokens(l.get("chain"), ',')) { size_t c2 = t.find(':'); if (c2 != std::string::npos) m.chain.push_back(std::make_pair(ref::unhex(t.substr(0, c2)), atoi(t.c_str() + c2 + 1))); }
        m.poll = static_cast<int>(l.num("poll", 0));
        m.masterLen = static_cast<int>(l.num("mlen", 0));
        msgs[m.name] = m;
      } else if (l.kind == "user") {
        std::string lv = l.get("levels") == "-" ? "" : l.get("levels");
        if (l.get("name") == "*") defaultLevels = lv; else users[l.get("name")] = std::make_pair(l.get("secret"), lv);
      }
    }
    auto fitsMaster = [](const MsgModel& mm, const Bytes& fullId, const Bytes& master) {
      size_t dataLen = static_cast<size_t>(mm.masterLen);
      if (mm.write) for (auto& f : mm.fields) dataLen += static_cast<size_t>(f.second);
      if (mm.write && !mm.chain.empty()) return false;   // chained writes are judged by their own rule
      if (master.size() != 5 + fullId.size() + dataLen) return false;
      if (master[1] != mm.zz || master[2] != mm.pb || master[3] != mm.sb) return false;
      for (size_t i = 0; i < fullId.size(); i++) if (master[5 + i] != fullId[i]) return false;
      return true;
    };
    // number of definitions whose ID is a prefix of the telegram (ebusd identifies by ID, whatever the data length)
    auto fitCount = [&](const Bytes& master) {
      auto prefix = [&master](const MsgModel& mm, const Bytes& fullId) {
        if (master.size() < 5 + fullId.size() || master[1] != mm.zz || master[2] != mm.pb || master[3] != mm.sb) return false;
        return std::equal(fullId.begin(), fullId.end(), master.begin() + 5);
      };
      int n = 0;
      for (auto& o : msgs) {
        if (o.second.chain.empty()) { if (prefix(o.second, o.second.id)) n++; continue; }
        for (auto& part : o.second.chain) { Bytes oid = o.second.id; oid.insert(oid.end(), part.first.begin(), part.first.end()); if (prefix(o.second, oid)) n++; }
      }
      return n;
    };
    // telegrams that can belong to the definition (ID and length fit). A telegram that fits a second definition as well
    // (a longer ID whose extra bytes look like this one's data) is ambiguous: it counts where a telegram is looked for,
    // and is left out (unambiguousOnly) where the presence of a telegram is held against ebusd.
    auto exchangesOf = [&](const MsgModel& m, const Bytes& suffix, int64_t from, int64_t to, bool unambiguousOnly = false) {
      std::vector<const Exchange*> v;
      Bytes id = m.id;
      id.insert(id.end(), suffix.begin(), suffix.end());
      auto fits = [&fitsMaster](const MsgModel& mm, const Bytes& fullId, const Exchange& e) { return fitsMaster(mm, fullId, e.master); };
      for (const Exchange& e : rd.exchanges) {
        if (e.t < from || e.t > to || !fits(m, id, e)) continue;
        bool other = false;
        for (auto& o : msgs) {
          if (o.second.name == m.name) continue;
          // any definition may have been sent to this destination (explicit -d ZZ), and a hex command may carry any
          // number of bytes behind an ID: another definition whose ID is a prefix of the telegram makes it ambiguous
          const MsgModel& oc = o.second;
          auto prefix = [&e, &oc](const Bytes& fullId) {
            return e.master.size() >= 5 + fullId.size() && e.master[2] == oc.pb && e.master[3] == oc.sb && std::equal(fullId.begin(), fullId.end(), e.master.begin() + 5);
          };
          if (oc.chain.empty()) { if (prefix(oc.id)) other = true; continue; }
          for (auto& part : oc.chain) { Bytes oid = oc.id; oid.insert(oid.end(), part.first.begin(), part.first.end()); if (prefix(oid)) other = true; }
        }
        if (!other || !unambiguousOnly) v.push_back(&e);
      }
      return v;
    };
    // every telegram of ebusd: own source address, NN consistent (the bus model checks the CRC)
    for (const Exchange& e : rd.exchanges) {
      if (e.master.size() >= 5 && (e.master[0] != rd.own || e.master[4] != e.master.size() - 5)) {
        res->violate("C09", "malformed-telegram", e.master[0] != rd.own ? "source" : "NN", "telegram " + ref::hex(e.master));
      }
    }
    bool hasForeignTraffic = false;
    for (auto& l : p.lines) if (l.kind == "bus" && l.sub != "idle") hasForeignTraffic = true;
    // session model per client (commands of one client are sequential)
    std::map<int, std::string> sessionUser;
    std::map<std::string, bool> pollGranted;
    struct Win { int64_t from, to; std::string msg; bool grant; };
    std::vector<Win> wins;
    auto levelsOf = [&](const std::string& user) { return user.empty() ? defaultLevels : (users.count(user) ? users[user].second : defaultLevels); };
    // first pass: sessions and grants
    std::map<const CmdRecord*, bool> isGranted;
    for (const CmdRecord* r : deferred) {
      if (r->tag == "auth") {
        std::string u = r->line.get("user"), sec = r->line.get("secret");
        bool okAuth = users.count(u) && users[u].first == sec;
        if (okAuth) sessionUser[r->client] = u;
        judged++;
        bool saysOk = r->response == "done";
        if (saysOk != okAuth) {
          res->violate("C16", "authentication", okAuth ? "valid-credentials-rejected" : "invalid-credentials-accepted", "auth " + u + " " + sec + " answered [" + r->response + "]");
          if (saysOk) sessionUser[r->client] = u;   // follow what the daemon believes to avoid cascades
        }
        continue;
      }
      std::string mname = r->line.get("msg");
      if (!msgs.count(mname)) continue;
      const MsgModel& m = msgs[mname];
      bool g = true;
      if (r->tag == "acl") g = granted(m.level, levelsOf(sessionUser.count(r->client) ? sessionUser[r->client] : ""));
      else if (r->tag == "httpdata") {
        std::string u = r->line.get("user") == "-" ? "" : r->line.get("user"), sec = r->line.get("secret") == "-" ? "" : r->line.get("secret");
        bool credsGiven = !u.empty() || !sec.empty();
        bool credsOk = users.count(u) && users[u].first == sec;
        g = (!credsGiven || credsOk) && granted(m.level, levelsOf(credsOk ? u : ""));
      }
      isGranted[r] = g;
      wins.push_back(Win{r->sentT, r->doneT < 0 ? rd.endT : r->doneT, mname, g});
      if (g && (r->line.get("kind") == "readpoll" || r->request.find("poll=") != std::string::npos)) pollGranted[mname] = true;
    }
    for (const CmdRecord* r : deferred) {
      if (r->tag == "auth") continue;
      std::string mname = r->line.get("msg");
      if (!msgs.count(mname)) continue;
      MsgModel m = msgs[mname];
      if (r->line.has("dst")) m.zz = static_cast<uint8_t>(r->line.num("dst"));   // an explicitly requested destination
      {
        // a hex command names bytes, not a definition: when the bytes fit several definitions (a longer ID whose extra
        // bytes look like the other one's data), which of them - and whose level - is meant is ebusd's choice: not judged
        std::string kind = r->line.get("kind");
        size_t hp = r->request.find("-h ");
        if ((kind == "readhex" || kind == "writehex") && hp != std::string::npos) {
          Bytes master = {rd.own};
          Bytes rest = ref::unhex(r->request.substr(hp + 3));
          master.insert(master.end(), rest.begin(), rest.end());
          if (fitCount(master) != 1) { res->counters["l3.hex_command_ambiguous"]++; continue; }
        }
      }
      std::string prop = r->line.get("prop", r->tag == "acl" || r->tag == "httpdata" ? "C16" : "C09");
      bool g = isGranted[r];
      int64_t to = r->doneT < 0 ? rd.endT : r->doneT;
      judged++;
      char buf[700];
      bool isErr = r->response.compare(0, 4, "ERR:") == 0 || r->response.compare(0, 5, "usage") == 0;
      if (r->tag == "httpdata") {
        std::string status = statusOf(r->response), body = bodyOf(r->response);
        bool listed = body.find("\"" + m.name + "\"") != std::string::npos;
        if (!g && listed) {
          snprintf(buf, sizeof(buf), "HTTP [%s] lists message %s (level %s) although the request is not granted that level", r->request.substr(0, 80).c_str(), m.name.c_str(), m.level.c_str());
          res->violate("C16", "level-not-enforced", "http-data", buf);
        } else if (g && status == "200" && !listed && !m.write) {
          snprintf(buf, sizeof(buf), "HTTP [%s] does not list message %s although the level %s is granted", r->request.substr(0, 80).c_str(), m.name.c_str(), m.level.c_str());
          res->violate("C16", "granted-access-denied", "http-data", buf);
        }
        bool credsGiven = r->line.get("user") != "-" || r->line.get("secret") != "-";
        std::string u = r->line.get("user"), sec = r->line.get("secret") == "-" ? "" : r->line.get("secret");
        bool credsOk = users.count(u) && users[u].first == sec;
        if (credsGiven && !credsOk && status != "403") {
          snprintf(buf, sizeof(buf), "HTTP [%s] with wrong or missing secret answered with status %s", r->request.substr(0, 80).c_str(), status.c_str());
          res->violate("C16", "authentication", "http-invalid-credentials-accepted", buf);
        }
        continue;
      }
      if (g && r->line.num("lenient", 0)) continue;   // only the safety direction is judged for this request
      if (!g) {
        // MUST NOT: a value, or a telegram of this message on the bus while the request was served
        if (!isErr) {
          snprintf(buf, sizeof(buf), "client %d [%s] on message %s (level %s) is not granted but was answered [%s]", r->client, r->request.c_str(), m.name.c_str(), m.level.c_str(), r->response.substr(0, 60).c_str());
          res->violate("C16", "level-not-enforced", r->line.get("kind", "read"), buf);
        }
        auto ex = exchangesOf(m, Bytes(), r->sentT, to, true);
        bool other = false;
        for (auto& w : wins) if (w.grant && w.msg == mname && w.from <= to && w.to >= r->sentT) other = true;
        if (!ex.empty() && !other && !pollGranted[mname]) {
          snprintf(buf, sizeof(buf), "client %d [%s] is not granted level %s but a telegram of %s was sent while it was served (%s)", r->client, r->request.c_str(), m.level.c_str(), m.name.c_str(),
                   ref::hex(ex[0]->master).c_str());
          res->violate("C16", "level-not-enforced", "telegram-sent " + r->line.get("kind", "read"), buf);
        }
        continue;
      }
      if (r->tag == "writechain") {
        // every part: ID with its suffix followed by its slice of the data, in order
        Bytes enc = ref::unhex(r->line.get("enc"));
        std::vector<Bytes> want;
        size_t off = 0;
        for (auto& part : m.chain) {
          size_t len = static_cast<size_t>(part.second);
          Bytes t = {rd.own, m.zz, m.pb, m.sb, static_cast<uint8_t>(m.id.size() + part.first.size() + len)};
          t.insert(t.end(), m.id.begin(), m.id.end());
          t.insert(t.end(), part.first.begin(), part.first.end());
          for (size_t q = 0; q < len && off + q < enc.size(); q++) t.push_back(enc[off + q]);
          off += len;
          want.push_back(t);
        }
        std::vector<const Exchange*> seen;
        for (const Exchange& e : rd.exchanges) if (e.t >= r->sentT && e.t <= to && e.master.size() >= 5 + m.id.size() && e.master[1] == m.zz && e.master[2] == m.pb && e.master[3] == m.sb &&
            std::equal(m.id.begin(), m.id.end(), e.master.begin() + 5)) seen.push_back(&e);
        if (isErr && seen.empty()) {
          snprintf(buf, sizeof(buf), "[%s] on a loaded chained write definition answered [%s] and no part reached the bus", r->request.c_str(), r->response.substr(0, 60).c_str());
          res->violate("C09", "chained-write-rejected", r->response.substr(0, 40), buf);
          continue;
        }
        size_t wi = 0;
        for (auto e : seen) if (wi < want.size() && e->master == want[wi]) wi++;
        if (!isErr && wi < want.size()) {
          snprintf(buf, sizeof(buf), "[%s]: part %zu expected as %s, seen %s", r->request.c_str(), wi, ref::hex(want[wi]).c_str(), seen.empty() ? "nothing" : ref::hex(seen.back()->master).c_str());
          res->violate("C09", "chained-write-split-mismatch", "part", buf);
        }
        continue;
      }
      // granted (or no access control in this family): the result must be right
      if (m.write) {
        Bytes enc = ref::unhex(r->line.get("enc"));
        Bytes want = {rd.own, m.zz, m.pb, m.sb, static_cast<uint8_t>(m.id.size() + enc.size())};
        want.insert(want.end(), m.id.begin(), m.id.end());
        want.insert(want.end(), enc.begin(), enc.end());
        auto ex = exchangesOf(m, Bytes(), r->sentT, to);
        bool found = false, lastGood = false;
        for (auto e : ex) { if (e->master == want) found = true; lastGood = e->answered; }
        if (isErr && ex.empty() && !hasForeignTraffic) {
          snprintf(buf, sizeof(buf), "[%s] answered [%s] and no telegram for it reached the bus", r->request.c_str(), r->response.substr(0, 60).c_str());
          res->violate(prop, prop == "C16" ? "granted-access-denied" : "request-not-sent", "write", buf);
        }
        if (!isErr && !found) {
          snprintf(buf, sizeof(buf), "[%s] answered [%s] but the telegram %s was not seen on the bus (seen: %s)", r->request.c_str(), r->response.substr(0, 40).c_str(), ref::hex(want).c_str(),
                   ex.empty() ? "none" : ref::hex(ex.back()->master).c_str());
          res->violate(prop, "write-telegram-mismatch", ex.empty() ? "no-telegram" : "other-bytes", buf);
        } else if (isErr && found && lastGood) {
          snprintf(buf, sizeof(buf), "[%s] answered [%s] although the write was acknowledged on the bus", r->request.c_str(), r->response.substr(0, 60).c_str());
          res->violate(prop, prop == "C16" ? "granted-access-denied" : "false-failure", "write", buf);
        }
        // (messages are private to one client only in the c09 family; elsewhere another client may write the same message)
        if (family == "c09") for (auto e : exchangesOf(m, Bytes(), r->sentT, to, true)) if (e->master != want && !isErr) {
          snprintf(buf, sizeof(buf), "[%s]: telegram %s differs from the reference encoding %s", r->request.c_str(), ref::hex(e->master).c_str(), ref::hex(want).c_str());
          res->violate(prop, "write-telegram-mismatch", "other-bytes", buf);
        }
        continue;
      }
      // read
      bool force = r->tag == "acl" ? r->request.find(" -f") != std::string::npos : r->line.num("force", 1) != 0;
      bool hexForm = r->line.get("kind") == "readhex";
      std::string expect;
      bool haveAll = true, lastGood = true, anyInWindow = false;
      Bytes data;
      std::vector<std::pair<Bytes, int>> parts = m.chain;
      if (parts.empty()) parts.push_back(std::make_pair(Bytes(), 0));
      for (auto& part : parts) {
        auto ex = exchangesOf(m, part.first, force ? r->sentT : 0, to);
        const Exchange* good = nullptr;
        for (auto e : ex) { if (e->answered && !e->slave.empty()) good = e; }
        if (!ex.empty()) { anyInWindow = true; lastGood = lastGood && ex.back()->answered; }
        else if (force) lastGood = false;
        if (!good) { haveAll = false; continue; }
        data.insert(data.end(), good->slave.begin() + 1, good->slave.end());
      }
      if (isErr) {
        // (tolerant: the bus thread is stalled on purpose in this plan; an exchange that the slave answered may still have
        //  failed for ebusd because it could not keep the timing)
        if (haveAll && lastGood && anyInWindow && !r->line.num("tolerant", 0)) {
          snprintf(buf, sizeof(buf), "[%s] answered [%s] although every part was answered correctly on the bus", r->request.c_str(), r->response.substr(0, 60).c_str());
          res->violate(prop, prop == "C16" ? "granted-access-denied" : "false-failure", "read", buf);
        } else if (!anyInWindow && !hasForeignTraffic) {
          // nothing competes for the bus in this plan: a granted request must at least reach the bus
          snprintf(buf, sizeof(buf), "[%s] answered [%s] and no telegram for it reached the bus", r->request.c_str(), r->response.substr(0, 60).c_str());
          res->violate(prop, prop == "C16" ? "granted-access-denied" : "request-not-sent", "read", buf);
        }
        continue;
      }
      if (!haveAll) {
        if (force) {
          snprintf(buf, sizeof(buf), "[%s] answered [%s] but no complete answered exchange for it was seen while it was served", r->request.c_str(), r->response.substr(0, 60).c_str());
          res->violate(prop, "value-without-exchange", m.chain.empty() ? "single" : "chained", buf);
        }
        continue;
      }
      expect = decodeFields(m, data);
      if (r->line.has("field")) {
        // one field selected by name (and index among the fields of that name)
        std::vector<std::string> vals = tokens(expect, ';');
        size_t sel = static_cast<size_t>(r->line.num("field"));
        expect = sel < vals.size() ? vals[sel] : "";
      }
      if (hexForm) { Bytes full; full.push_back(static_cast<uint8_t>(data.size())); full.insert(full.end(), data.begin(), data.end()); expect = ref::hex(full); }
      if (r->response != expect) {
        // with retries or a concurrent poll, an earlier good answer inside the window is acceptable as well
        bool alt = false;
        if (m.chain.empty()) {
          for (auto e : exchangesOf(m, Bytes(), force ? r->sentT : 0, to)) if (e->answered && !e->slave.empty() && (hexForm ? ref::hex(e->slave) : decodeFields(m, Bytes(e->slave.begin() + 1, e->slave.end()))) == r->response) alt = true;
        }
        if (!alt) {
          snprintf(buf, sizeof(buf), "[%s] answered [%s], reference decode of what the slave sent is [%s]", r->request.c_str(), r->response.substr(0, 80).c_str(), expect.c_str());
          res->violate(prop, "decoded-value-mismatch", m.chain.empty() ? "single" : "chained", buf);
        }
      }
    }
    // the MQTT sink publishes a levelled message only if the levels configured for it grant that level
    bool sinkOn = false;
    for (auto& l : p.lines) if (l.kind == "mqttsink") sinkOn = true;
    if (sinkOn) {
      std::string sinkLevels = users.count("mqtt") ? users["mqtt"].second : defaultLevels;
      for (auto& pb : rd.pubs) {
        for (auto& mm : msgs) {
          const MsgModel& m = mm.second;
          if (pb.topic != "ebusd/" + m.circuit + "/" + m.name) continue;
          judged++;
          if (!m.level.empty() && !granted(m.level, sinkLevels)) {
            char buf2[300];
            snprintf(buf2, sizeof(buf2), "message %s (level %s) was published on [%s] at %.1f ms although the sink's levels are [%s]", m.name.c_str(), m.level.c_str(), pb.topic.c_str(), pb.t / 1e6, sinkLevels.c_str());
            res->violate("C16", "level-not-enforced", "mqtt-sink", buf2);
          }
        }
      }
      // and it does publish what it is granted: the main loop hands a message over to the sinks at its next round (next
      // request, or after 5 s) unless the message was updated again in the very second of that round, and the handler
      // publishes within another second. So: a value that was read, with no further exchange of that message for 11 s
      // and at least 11 s before the end of the run, shows up.
      for (auto& mm : msgs) {
        const MsgModel& m = mm.second;
        if (m.write || (!m.level.empty() && !granted(m.level, sinkLevels))) continue;
        auto ex = exchangesOf(m, Bytes(), 0, rd.endT, true);
        int64_t quietSince = -1;
        for (size_t i = 0; i < ex.size(); i++) {
          if (!ex[i]->answered || ex[i]->slave.empty()) continue;
          int64_t next = i + 1 < ex.size() ? ex[i + 1]->t : rd.endT;
          if (next - ex[i]->t >= 11000 * 1000000LL && ex[i]->t <= rd.endT - 11000 * 1000000LL) { quietSince = ex[i]->t; break; }
        }
        if (quietSince < 0) continue;
        bool pub = false;
        for (auto& pb : rd.pubs) if (pb.topic == "ebusd/" + m.circuit + "/" + m.name && pb.t >= quietSince) pub = true;
        if (!pub) {
          char buf2[300];
          snprintf(buf2, sizeof(buf2), "message %s (level [%s], sink levels [%s]) was read at %.1f ms, not touched for 11 s, but never published until %.1f ms", m.name.c_str(), m.level.c_str(), sinkLevels.c_str(), quietSince / 1e6, rd.endT / 1e6);
          res->violate("C16", "granted-access-denied", "mqtt-sink", buf2);
        }
      }
    }
    // a levelled message without configured poll priority must never be polled unless a granted request set one
    for (auto& mm : msgs) {
      const MsgModel& m = mm.second;
      if (m.level.empty() || m.poll > 0 || pollGranted[m.name] || family != "c16") continue;
      for (auto e : exchangesOf(m, Bytes(), 0, rd.endT, true)) {
        bool inWin = false;
        for (auto& w : wins) if (w.grant && w.msg == m.name && e->t >= w.from && e->t <= w.to) inWin = true;
        if (!inWin) {
          // inside the window of a denied request it was reported above already
          bool inDenied = false;
          for (auto& w : wins) if (!w.grant && w.msg == m.name && e->t >= w.from && e->t <= w.to) inDenied = true;
          if (!inDenied) {
            char buf2[200];
            snprintf(buf2, sizeof(buf2), "message %s (level %s) was sent at %.1f ms outside any granted request", m.name.c_str(), m.level.c_str(), e->t / 1e6);
            res->violate("C16", "level-not-enforced", "polled-without-grant", buf2);
            break;
          }
        }
      }
    }
  }
  // ---- C16: conditional variants of one circuit/name with different levels (family c16v) ----
  // Two definitions "heat temp": the open one (field vopen, ID 0d0100) and the protected one (field vprot, ID 0d0200, level L);
  // the referenced message heat/variant decides which one is available. The field name in verbose output tells them apart.
  {
    const plan::Line* vl = nullptr;
    for (auto& l : p.lines) if (l.kind == "variant") vl = &l;
    if (vl && !variantCmds.empty()) {
      std::string level = vl->get("level");
      bool protActive = vl->get("active") == "prot";
      uint8_t vsb = static_cast<uint8_t>(vl->num("sb"));
      std::map<std::string, std::pair<std::string, std::string>> users;
      std::string defaultLevels;
      for (auto& l : p.lines) if (l.kind == "user") {
        std::string lv = l.get("levels") == "-" ? "" : l.get("levels");
        if (l.get("name") == "*") defaultLevels = lv; else users[l.get("name")] = std::make_pair(l.get("secret"), lv);
      }
      auto levelsOf = [&](const std::string& user) { return user.empty() || !users.count(user) ? defaultLevels : users[user].second; };
      auto protExchanges = [&](int64_t from, int64_t to) {
        int n = 0;
        for (const Exchange& e : rd.exchanges) if (e.t >= from && e.t <= to && e.master.size() == 8 && e.master[1] == 0x08 && e.master[2] == 0xb5 && e.master[3] == vsb && e.master[5] == 0x0d && e.master[6] == 0x02 && e.master[7] == 0x00) n++;
        return n;
      };
      std::map<int, std::string> sessionUser;
      std::map<int, bool> refKnown, listening;    // the client itself read heat/variant successfully before
      struct GW { int64_t from, to; };
      std::vector<GW> grantedForce;
      std::map<const CmdRecord*, bool> gOf;
      for (const CmdRecord* r : variantCmds) {
        if (r->tag == "auth") { std::string u = r->line.get("user"); if (users.count(u) && users[u].first == r->line.get("secret") && r->response == "done") sessionUser[r->client] = u; continue; }
        bool g;
        if (r->line.get("kind") == "http") {
          std::string u = r->line.get("user") == "-" ? "" : r->line.get("user"), sec = r->line.get("secret") == "-" ? "" : r->line.get("secret");
          bool credsOk = users.count(u) && users[u].first == sec;
          g = (u.empty() || credsOk) && granted(level, levelsOf(credsOk ? u : ""));
        } else {
          g = granted(level, levelsOf(sessionUser.count(r->client) ? sessionUser[r->client] : ""));
        }
        gOf[r] = g;
        if (g && r->line.get("kind") == "readforce") grantedForce.push_back(GW{r->sentT, r->doneT < 0 ? rd.endT : r->doneT});
      }
      for (const CmdRecord* r : variantCmds) {
        if (r->tag == "auth") continue;
        std::string kind = r->line.get("kind");
        bool g = gOf[r];
        int64_t to = r->doneT < 0 ? rd.endT : r->doneT;
        char buf[700];
        judged++;
        std::string seen = r->response;
        if (kind == "listen") { listening[r->client] = true; auto it = rd.rxAll.find(r->client); seen = it == rd.rxAll.end() ? "" : it->second; }
        bool showsProt = seen.find("vprot") != std::string::npos, showsOpen = seen.find("vopen") != std::string::npos;
        if (kind == "refread") { if (r->response.compare(0, 4, "ERR:") != 0) refKnown[r->client] = true; continue; }
        if (!g && showsProt) {
          snprintf(buf, sizeof(buf), "client %d [%s] is not granted level %s but was shown the protected variant: [%s]", r->client, r->request.substr(0, 80).c_str(), level.c_str(), seen.substr(0, 300).c_str());
          res->violate("C16", "level-not-enforced", "conditional-variant " + kind, buf);
          continue;
        }
        if (!g && kind == "readforce") {
          bool other = false;
          for (auto& w : grantedForce) if (w.from <= to && w.to >= r->sentT) other = true;
          if (!other && protExchanges(r->sentT, to) > 0) {
            snprintf(buf, sizeof(buf), "client %d [%s] is not granted level %s but the telegram of the protected variant was sent while it was served", r->client, r->request.c_str(), level.c_str());
            res->violate("C16", "level-not-enforced", "telegram-sent conditional-variant", buf);
            continue;
          }
        }
        // the other direction: once the client itself has read the referenced value, a forced read shows the variant that
        // is available to it (the open one needs no level at all)
        if (kind == "readforce" && refKnown[r->client]) {
          bool wantProt = protActive && g, wantOpen = !protActive;
          bool notFound = r->response.compare(0, 22, "ERR: element not found") == 0;
          if ((wantProt && (notFound || showsOpen)) || (wantOpen && (notFound || showsProt))) {
            snprintf(buf, sizeof(buf), "client %d [%s] (level %s %s, %s variant active, referenced value known) was answered [%s]", r->client, r->request.c_str(), level.c_str(), g ? "granted" : "not granted",
                     protActive ? "protected" : "open", r->response.substr(0, 120).c_str());
            res->violate("C16", "granted-access-denied", "conditional-variant " + kind, buf);
          }
        }
      }
    }
  }
  // ---- C17 at daemon level (family c17d): every message with a poll priority keeps being polled ----
  // one poll per second, at most 4 messages with priorities 1..3: the rarest one is due every 10th poll at worst, so each of
  // the windows [12 s, 40 s] and [40 s, 68 s] must contain a telegram of every message that had a priority by 10 s
  if (family == "c17d") {
    std::map<std::string, int64_t> askedAt;
    for (const CmdRecord& r : rd.cmds) if (r.tag == "pollask" && r.doneT >= 0 && r.response.compare(0, 4, "ERR:") != 0 && !askedAt.count(r.line.get("msg"))) askedAt[r.line.get("msg")] = r.doneT;
    for (auto& l : p.lines) {
      if (l.kind != "msg") continue;
      bool enrolled = l.num("poll", 0) > 0 || (askedAt.count(l.get("name")) && askedAt[l.get("name")] < 10000 * 1000000LL);
      if (!enrolled || rd.endT < 70000 * 1000000LL) continue;
      Bytes id = ref::unhex(l.get("id"));
      int n1 = 0, n2 = 0;
      for (const Exchange& e : rd.exchanges) {
        if (e.master.size() < 5 + id.size() || e.master[1] != l.num("zz") || e.master[2] != l.num("pb") || e.master[3] != l.num("sb") || !std::equal(id.begin(), id.end(), e.master.begin() + 5)) continue;
        if (e.t >= 12000 * 1000000LL && e.t < 40000 * 1000000LL) n1++;
        if (e.t >= 40000 * 1000000LL && e.t < 68000 * 1000000LL) n2++;
      }
      judged++;
      res->counters["c17d.messages_judged"]++;
      if (n1 == 0 || n2 == 0) {
        char buf[300];
        snprintf(buf, sizeof(buf), "message %s (priority %s) was polled %d times between 12 s and 40 s and %d times between 40 s and 68 s (%zu telegrams of ebusd in the run)", l.get("name").c_str(),
                 l.num("poll", 0) > 0 ? l.get("poll").c_str() : "from a client", n1, n2, rd.exchanges.size());
        res->violate("C17", "starvation", "enrolled-but-never-polled daemon", buf);
      }
    }
  }
  // ---- C12 (family c12n): the definition a circuit-less lookup selects must not depend on the order of the lines ----
  // two names, each defined in the same two circuits under the same (true) condition, one name with the smaller circuit
  // first and the other with the larger one first: whichever rule picks the circuit, it must pick the same one for both
  if (family == "c12n") {
    std::map<std::string, std::pair<Bytes, Bytes>> ids;
    for (auto& l : p.lines) if (l.kind == "lookup") ids[l.get("name")] = std::make_pair(ref::unhex(l.get("a")), ref::unhex(l.get("b")));
    std::map<std::string, char> chosen;   // name -> 'a' / 'b'
    std::map<std::string, std::string> how;
    for (const CmdRecord& r : rd.cmds) {
      if (r.tag != "namelookup" || r.doneT < 0 || !ids.count(r.line.get("name"))) continue;
      const auto& pr = ids[r.line.get("name")];
      char c2 = 0;
      for (const Exchange& e : rd.exchanges) {
        if (e.t < r.sentT || e.t > r.doneT || e.master.size() < 8) continue;
        if (std::equal(pr.first.begin(), pr.first.end(), e.master.begin() + 5)) c2 = c2 == 'b' ? 'x' : 'a';
        else if (std::equal(pr.second.begin(), pr.second.end(), e.master.begin() + 5)) c2 = c2 == 'a' ? 'x' : 'b';
      }
      judged++;
      if (c2 != 'a' && c2 != 'b') continue;
      const std::string& name = r.line.get("name");
      if (chosen.count(name) && chosen[name] != c2) {
        res->violate("C12", "history-dependent-result", "circuit-less-lookup changes", "[" + r.request + "] selected the other circuit than the same command before");
      }
      chosen[name] = c2;
      how[name] = r.request;
    }
    if (chosen.size() == 2) {
      auto it = chosen.begin();
      char c1 = it->second; ++it;
      if (c1 != it->second) {
        char buf[300];
        snprintf(buf, sizeof(buf), "[%s] selected the definition of the %s circuit, [%s] that of the %s circuit: the two names differ only in the order of their lines", how[chosen.begin()->first].c_str(),
                 c1 == 'a' ? "first (smaller)" : "second (larger)", how[it->first].c_str(), it->second == 'a' ? "first (smaller)" : "second (larger)");
        res->violate("C12", "load-order-dependent-result", "circuit-less-lookup", buf);
      }
      res->counters["c12n.pairs_judged"]++;
    }
  }
  // ---- C18: MQTT topics built from the template map back to the same (circuit, name, field) ----
  if (!rd.mqttIn.empty()) {
    std::string tmpl;
    std::vector<MsgModel> msgs;
    for (auto& l : p.lines) {
      if (l.kind == "mqttcfg") tmpl = unhexText(l.get("template"));
      if (l.kind != "msg") continue;
      MsgModel m;
      m.name = l.get("name"); m.circuit = l.get("circuit");
      m.write = l.get("dir") == "w";
      m.zz = static_cast<uint8_t>(l.num("zz")); m.pb = static_cast<uint8_t>(l.num("pb")); m.sb = static_cast<uint8_t>(l.num("sb"));
      m.id = ref::unhex(l.get("id"));
      for (auto& t : tokens(l.get("fields"), ',')) { size_t c2 = t.find(':'); if (c2 != std::string::npos) m.fields.push_back(std::make_pair(t.substr(0, c2), atoi(t.c_str() + c2 + 1))); }
      msgs.push_back(m);
    }
    auto build = [&tmpl](const MsgModel& m, const std::string& field) {
      std::string t = tmpl;
      auto rep = [&t](const std::string& k, const std::string& v) { size_t q = t.find(k); if (q != std::string::npos) t.replace(q, k.size(), v); };
      rep("%circuit", m.circuit); rep("%name", m.name); rep("%field", field);
      return t;
    };
    bool byField = tmpl.find("%field") != std::string::npos;
    // every data publication is on a topic the template yields for one of the definitions (global status topics aside)
    std::map<std::string, std::string> known;   // topic -> message name
    for (auto& m : msgs) {
      if (!byField) known[build(m, "")] = m.name;
      else for (size_t i = 0; i < m.fields.size(); i++) known[build(m, "f" + std::to_string(i))] = m.name;
    }
    for (auto& pb : rd.pubs) {
      if (pb.topic.find("global") != std::string::npos) continue;
      if (!known.count(pb.topic)) {
        res->violate("C18", "mqtt-topic-mapping", "published-on-foreign-topic", "publication on [" + pb.topic + "], which the template [" + tmpl + "] yields for none of the definitions");
        break;
      }
    }
    for (size_t k = 0; k < rd.mqttIn.size(); k++) {
      const MqttIn& in = rd.mqttIn[k];
      int64_t to = k + 1 < rd.mqttIn.size() ? rd.mqttIn[k + 1].t : rd.endT;
      const MsgModel* m = nullptr;
      for (auto& mm : msgs) if (mm.name == in.line.get("msg")) m = &mm;
      if (!m || in.t + 1200 * 1000000LL > rd.endT) continue;
      judged++;
      std::string dir = in.line.get("dir");
      char buf[700];
      // the telegram of exactly that definition goes to the bus (get, set)
      std::vector<const Exchange*> ex;
      for (const Exchange& e : rd.exchanges) {
        if (e.t < in.t || e.t > to || e.master.size() < 5 + m->id.size()) continue;
        if (e.master[1] != m->zz || e.master[2] != m->pb || e.master[3] != m->sb || !std::equal(m->id.begin(), m->id.end(), e.master.begin() + 5)) continue;
        ex.push_back(&e);
      }
      if (dir != "list" && ex.empty()) {
        snprintf(buf, sizeof(buf), "topic [%s] (template [%s], message %s %s) arrived at %.1f ms, no telegram of that message followed", in.topic.c_str(), tmpl.c_str(), m->circuit.c_str(), m->name.c_str(), in.t / 1e6);
        res->violate("C18", "mqtt-topic-mapping", dir + "-not-mapped", buf);
        continue;
      }
      if (dir == "set") {
        Bytes enc = ref::unhex(in.line.get("enc"));
        Bytes want = {rd.own, m->zz, m->pb, m->sb, static_cast<uint8_t>(m->id.size() + enc.size())};
        want.insert(want.end(), m->id.begin(), m->id.end());
        want.insert(want.end(), enc.begin(), enc.end());
        bool found = false;
        for (auto e : ex) if (e->master == want) found = true;
        if (!found) {
          snprintf(buf, sizeof(buf), "topic [%s] with [%s]: telegram %s differs from the reference encoding %s", in.topic.c_str(), in.data.c_str(), ref::hex(ex.back()->master).c_str(), ref::hex(want).c_str());
          res->violate("C18", "mqtt-topic-mapping", "set-other-bytes", buf);
        }
        continue;
      }
      if (in.line.has("listcircuit")) {
        // list with the circuit only: every message of that circuit is published, and no message of another circuit is
        // listed (a listing publishes an empty payload for a message without data; updates always carry data)
        std::string circ = in.line.get("listcircuit");
        for (auto& mm : msgs) {
          for (size_t i = 0; i < (byField ? mm.fields.size() : 1); i++) {
            std::string topic = build(mm, byField ? "f" + std::to_string(i) : "");
            bool any = false, emptyPub = false;
            for (auto& pb : rd.pubs) if (pb.t >= in.t && pb.t <= to && pb.topic == topic) { any = true; if (pb.data.empty()) emptyPub = true; }
            if (mm.circuit == circ && !any) {
              snprintf(buf, sizeof(buf), "topic [%s] (template [%s]) lists circuit %s, nothing was published on [%s]", in.topic.c_str(), tmpl.c_str(), circ.c_str(), topic.c_str());
              res->violate("C18", "mqtt-topic-mapping", "list-not-published", buf);
            } else if (mm.circuit != circ && emptyPub) {
              snprintf(buf, sizeof(buf), "topic [%s] (template [%s]) lists circuit %s, but [%s] of circuit %s was listed as well", in.topic.c_str(), tmpl.c_str(), circ.c_str(), topic.c_str(), mm.circuit.c_str());
              res->violate("C18", "mqtt-topic-mapping", "list-of-other-circuit", buf);
            }
          }
        }
        continue;
      }
      // get / list: a publication on the topic(s) of that definition follows
      std::vector<std::string> values;
      const Exchange* good = nullptr;
      for (auto e : ex) if (e->answered && !e->slave.empty()) good = e;
      if (good) values = tokens(decodeFields(*m, Bytes(good->slave.begin() + 1, good->slave.end())), ';');
      for (size_t i = 0; i < (byField ? m->fields.size() : 1); i++) {
        std::string topic = build(*m, byField ? "f" + std::to_string(i) : "");
        const Pub* hit = nullptr;
        bool valueOk = false;
        std::string expect;
        if (good) { if (byField) expect = i < values.size() ? values[i] : ""; else for (size_t q = 0; q < values.size(); q++) expect += (q ? ";" : "") + values[q]; }
        for (auto& pb : rd.pubs) if (pb.t >= in.t && pb.t <= to && pb.topic == topic) { hit = &pb; if (pb.data == expect) valueOk = true; }
        if (!hit && (dir == "list" || good)) {
          snprintf(buf, sizeof(buf), "topic [%s] (template [%s]) arrived at %.1f ms, nothing was published on [%s]", in.topic.c_str(), tmpl.c_str(), in.t / 1e6, topic.c_str());
          res->violate("C18", "mqtt-topic-mapping", dir + "-not-published", buf);
          break;
        }
        if (hit && dir == "get" && good && !valueOk) {
          snprintf(buf, sizeof(buf), "topic [%s]: published [%s] on [%s], the reference decode of the slave answer is [%s]", in.topic.c_str(), hit->data.c_str(), topic.c_str(), expect.c_str());
          res->violate("C18", "mqtt-topic-mapping", "get-other-value", buf);
          break;
        }
      }
    }
  }
  res->counters["l3.commands_judged"] += judged;
  if (judged > 0) res->nontrivial = true;
}

}  // namespace l3
