// Plan generators for the L1 families (seed -> plan text).  Everything random is drawn here from the run seed,
// the resulting plan is fully explicit so that it can be edited and replayed.
#include <stdio.h>

#include <algorithm>

#include "harness.h"
#include "ref.h"
#include "simbus.h"

namespace l1gen {

using ref::Bytes;
using sim::Rng;
using simbus::Step;

static const std::vector<uint8_t>& masters() {
  static std::vector<uint8_t> m = ref::allMasters();
  return m;
}

static uint8_t biasedByte(Rng& r) {
  static const uint8_t special[] = {0xA9, 0xAA, 0x00, 0x01, 0xFF, 0xA8, 0xAB, 0x80, 0x7F};
  if (r.chance(0.35)) return special[r.below(sizeof(special))];
  return static_cast<uint8_t>(r.below(256));
}

static uint8_t randomSlaveAddr(Rng& r) {
  for (;;) {
    uint8_t a = static_cast<uint8_t>(r.below(256));
    if (a == ref::SYN || a == ref::ESC || a == ref::BROADCAST || ref::isMaster(a)) continue;
    return a;
  }
}

static int biasedLen(Rng& r) {
  int k = static_cast<int>(r.below(10));
  if (k < 3) return 0 + static_cast<int>(r.below(3));
  if (k < 5) return 16;
  if (k < 6) return 15;
  return static_cast<int>(r.below(17));
}

struct Tg {
  Bytes master, slave;   // unescaped
  bool hasSlave = false, hasAck = false;
};

static Tg randomTelegram(Rng& r, int forceDst = -1, int notSrc = -1) {
  Tg t;
  uint8_t qq;
  do { qq = r.pick(masters()); } while (qq == notSrc);
  uint8_t zz;
  int kind = forceDst >= 0 ? forceDst : static_cast<int>(r.below(10));
  if (kind < 2) zz = ref::BROADCAST;
  else if (kind < 4) { do { zz = r.pick(masters()); } while (zz == qq); }
  else zz = r.chance(0.3) ? ref::slaveOf(r.pick(masters())) : randomSlaveAddr(r);
  int nn = biasedLen(r);
  // optionally search for data whose CRC needs escaping
  bool wantEscCrc = r.chance(0.15);
  for (int attempt = 0; attempt < 300; attempt++) {
    t.master = {qq, zz, biasedByte(r), biasedByte(r), static_cast<uint8_t>(nn)};
    for (int i = 0; i < nn; i++) t.master.push_back(biasedByte(r));
    uint8_t c = ref::crcOf(t.master);
    if (!wantEscCrc || c == 0xA9 || c == 0xAA) break;
  }
  t.hasAck = zz != ref::BROADCAST;
  t.hasSlave = zz != ref::BROADCAST && !ref::isMaster(zz);
  if (t.hasSlave) {
    int sn = biasedLen(r);
    bool wantEsc = r.chance(0.15);
    for (int attempt = 0; attempt < 300; attempt++) {
      t.slave = {static_cast<uint8_t>(sn)};
      for (int i = 0; i < sn; i++) t.slave.push_back(biasedByte(r));
      uint8_t c = ref::crcOf(t.slave);
      if (!wantEsc || c == 0xA9 || c == 0xAA) break;
    }
  }
  return t;
}

static void addBytes(std::vector<Step>* out, const Bytes& b, char who, Rng& r) {
  for (uint8_t x : b) {
    Step s;
    s.who = who;
    s.b = x;
    s.gap = r.chance(0.15) ? static_cast<sim::ns_t>(r.below(6000)) * sim::US : 0;
    out->push_back(s);
  }
}

static Bytes corruptCrc(Bytes wire) {
  // wire = escaped bytes + escaped crc: flip a bit of the last byte, keeping it a legal raw symbol
  if (wire.empty()) return wire;
  size_t n = wire.size();
  if (n >= 2 && wire[n - 2] == ref::ESC) { wire[n - 1] ^= 0x01; return wire; }
  uint8_t v = static_cast<uint8_t>(wire[n - 1] ^ 0x10);
  if (v == ref::ESC || v == ref::SYN) v = static_cast<uint8_t>(wire[n - 1] ^ 0x20);
  wire[n - 1] = v;
  return wire;
}

// renders a well formed telegram with optional NAK-and-repeat of either part; returns the symbol list incl. final SYN
static std::vector<Step> renderTelegram(const Tg& t, Rng& r, int nakMaster, int nakSlave) {
  // nakX: 0 none, 1 first attempt bad CRC + NAK + good repeat, 2 first attempt good CRC but NAK-ed + repeat
  std::vector<Step> s;
  Bytes mw = ref::renderMasterPart(t.master);
  if (t.hasAck && nakMaster) {
    addBytes(&s, nakMaster == 1 ? corruptCrc(mw) : mw, 'M', r);
    addBytes(&s, Bytes{ref::NAK}, 'S', r);
  }
  addBytes(&s, mw, 'M', r);
  if (t.hasAck) {
    addBytes(&s, Bytes{ref::ACK}, 'S', r);
    if (t.hasSlave) {
      Bytes sw = ref::renderSlavePart(t.slave);
      if (nakSlave) {
        addBytes(&s, nakSlave == 1 ? corruptCrc(sw) : sw, 'S', r);
        addBytes(&s, Bytes{ref::NAK}, 'M', r);
      }
      addBytes(&s, sw, 'S', r);
      addBytes(&s, Bytes{ref::ACK}, 'M', r);
    }
  }
  addBytes(&s, Bytes{ref::SYN}, 'M', r);
  return s;
}

static const char* kMutations[] = {"flip", "drop", "insert", "truncsyn", "gap", "badcrc", "badcrc", "badcrc", "badesc", "nonmaster",
                                   "selfdst", "escdst", "wrongack", "noack", "secondnak", "synmid"};

static std::vector<Step> mutate(std::vector<Step> s, const Tg& t, Rng& r, std::string* name) {
  int m = static_cast<int>(r.below(sizeof(kMutations) / sizeof(kMutations[0])));
  *name = kMutations[m];
  size_t n = s.size() > 1 ? s.size() - 1 : 1;  // exclude the final SYN
  size_t p = r.below(static_cast<uint32_t>(n));
  std::string mu = *name;
  if (mu == "flip") {
    uint8_t x = static_cast<uint8_t>(1u << r.below(8));
    s[p].b ^= x;
  } else if (mu == "drop") {
    s.erase(s.begin() + static_cast<long>(p));
  } else if (mu == "insert") {
    Step st = s[p];
    st.b = biasedByte(r);
    s.insert(s.begin() + static_cast<long>(p), st);
  } else if (mu == "truncsyn") {
    s.resize(p);
    Step st; st.who = 'M'; st.b = ref::SYN;
    s.push_back(st);
  } else if (mu == "gap") {
    if (p == 0) p = 1 % n;
    s[p].gap = static_cast<sim::ns_t>(80 + r.below(60)) * sim::MS;
  } else if (mu == "badcrc") {
    // corrupt the master CRC (last byte of the master part)
    Bytes mw = ref::renderMasterPart(t.master);
    size_t idx = mw.size() - 1;
    if (idx < s.size()) s[idx].b ^= 0x04;
    if (s[idx].b == ref::SYN || s[idx].b == ref::ESC) s[idx].b ^= 0x08;
  } else if (mu == "badesc") {
    Step st = s[p];
    st.b = ref::ESC;
    Step st2 = s[p];
    st2.b = static_cast<uint8_t>(2 + r.below(250));
    if (st2.b == ref::SYN) st2.b = 0x55;
    s[p] = st;
    s.insert(s.begin() + static_cast<long>(p) + 1, st2);
  } else if (mu == "nonmaster") {
    // replace the source by a non master address and fix the CRC so that only the address rule rejects it
    Tg t2 = t;
    t2.master[0] = randomSlaveAddr(r);
    return renderTelegram(t2, r, 0, 0);
  } else if (mu == "selfdst") {
    Tg t2 = t;
    t2.master[1] = t2.master[0];
    t2.hasAck = true;
    t2.hasSlave = false;
    return renderTelegram(t2, r, 0, 0);
  } else if (mu == "escdst") {
    Tg t2 = t;
    t2.master[1] = r.chance(0.5) ? ref::ESC : ref::SYN;   // sent escaped: A9 00 / A9 01
    t2.hasAck = true;
    t2.hasSlave = false;
    return renderTelegram(t2, r, 0, 0);
  } else if (mu == "wrongack") {
    for (size_t i = 0; i < s.size(); i++) {
      if ((s[i].b == ref::ACK) && (s[i].who == 'S' || i > 6) && r.chance(0.6)) { s[i].b = static_cast<uint8_t>(1 + r.below(254)); if (s[i].b == ref::SYN || s[i].b == ref::NAK) s[i].b = 0x55; break; }
    }
  } else if (mu == "noack") {
    Bytes mw = ref::renderMasterPart(t.master);
    if (mw.size() < s.size()) {
      s.resize(mw.size());
      Step st; st.who = 'M'; st.b = ref::SYN; st.gap = static_cast<sim::ns_t>(r.below(20)) * sim::MS;
      s.push_back(st);
    }
  } else if (mu == "secondnak") {
    Bytes mw = ref::renderMasterPart(t.master);
    std::vector<Step> o;
    addBytes(&o, mw, 'M', r);
    addBytes(&o, Bytes{ref::NAK}, 'S', r);
    addBytes(&o, mw, 'M', r);
    addBytes(&o, Bytes{ref::NAK}, 'S', r);
    if (r.chance(0.5)) { addBytes(&o, mw, 'M', r); addBytes(&o, Bytes{ref::ACK}, 'S', r); }
    addBytes(&o, Bytes{ref::SYN}, 'M', r);
    return o;
  } else if (mu == "synmid") {
    Step st = s[p];
    st.b = ref::SYN;
    s.insert(s.begin() + static_cast<long>(p), st);
  }
  return s;
}

static std::string hexByte(int v) {
  char b[8];
  snprintf(b, sizeof(b), "0x%02x", v & 0xff);
  return b;
}

// common configuration lines
static void addKernelCfg(plan::Plan* p, Rng& r, uint64_t seed, const char* family, bool threads) {
  char buf[400];
  int policy = threads ? static_cast<int>(r.below(4)) : 0;
  static const double sw[] = {0.02, 0.05, 0.1, 0.2, 0.5};
  snprintf(buf, sizeof(buf), "cfg harness=l1 family=%s seed=%llu policy=%d switchp=%.2f pctdepth=%d pctsteps=%d starve=%s callcost=%d", family,
           static_cast<unsigned long long>(seed), policy, sw[r.below(5)], 1 + static_cast<int>(r.below(3)), 500 + static_cast<int>(r.below(3000)),
           r.chance(0.5) ? "bushandler" : "caller", 1000 + static_cast<int>(r.below(20000)));
  p->add(buf);
}

static uint8_t addHandlerCfg(plan::Plan* p, Rng& r, bool allowReadOnly, bool allowEnhanced, int forceAnswer = -1, double enhancedP = 0.4) {
  char buf[400];
  uint8_t own = r.chance(0.5) ? 0x31 : r.pick(masters());
  bool readOnly = allowReadOnly && r.chance(0.25);
  bool answer = forceAnswer >= 0 ? forceAnswer != 0 : r.chance(0.2);
  static const int locks[] = {0, 0, 3, 5, 25};
  bool enhanced = allowEnhanced && r.chance(enhancedP);
  snprintf(buf, sizeof(buf), "cfg own=%s readonly=%d answer=%d lockcount=%d gensyn=%d acqtimeout=10 recvtimeout=25 acqretries=%d sendretries=%d extralat=%d enhanced=%d",
           hexByte(own).c_str(), readOnly ? 1 : 0, answer ? 1 : 0, locks[r.below(5)], r.chance(0.2) ? 1 : 0, static_cast<int>(r.below(4)),
           static_cast<int>(r.below(3)), r.chance(0.2) ? 10 : 0, enhanced ? 1 : 0);
  p->add(buf);
  static const int batches[] = {0, 0, 0, 0, 0, 0, 3000, 3000, 8000, 8000, 16000, 16000, 25000, 40000};
  snprintf(buf, sizeof(buf), "cfg rxlat=%d txlat=%d synperiod=%d arbdelay=%d chunk=%d batch=%d enhplain=%d", static_cast<int>(r.below(2500)),
           static_cast<int>(r.below(1000)), 36000 + static_cast<int>(r.below(12000)), 50 + static_cast<int>(r.below(1500)), static_cast<int>(r.below(3)),
           batches[r.below(14)], r.chance(0.5) ? 100 : static_cast<int>(r.below(101)));
  p->add(buf);
  return own;
}

static void addScript(plan::Plan* p, const std::vector<Step>& s, int idle, const std::string& note) {
  p->add("bus script idle=" + std::to_string(idle) + " note=" + note + " steps=" + simbus::stepsToText(s));
}

static void addTraffic(plan::Plan* p, Rng& r, int nItems, uint8_t own, double mutP) {
  for (int i = 0; i < nItems; i++) {
    int k = static_cast<int>(r.below(100));
    int idle = r.chance(0.6) ? 0 : static_cast<int>(r.below(3));
    if (k < 5) {
      p->add("bus idle n=" + std::to_string(1 + r.below(4)));
      continue;
    }
    if (k < 10) {
      // noise fragment
      std::vector<Step> s;
      int n = 1 + static_cast<int>(r.below(12));
      for (int q = 0; q < n; q++) { Step st; st.who = 'N'; st.b = biasedByte(r); s.push_back(st); }
      addScript(p, s, idle, "noise");
      continue;
    }
    // sometimes two or three telegrams back to back in one script
    int count = r.chance(0.2) ? 2 + static_cast<int>(r.below(2)) : 1;
    std::vector<Step> all;
    std::string note;
    for (int c = 0; c < count; c++) {
      Tg t = randomTelegram(r, -1, r.chance(0.9) ? own : -1);
      int nm = r.chance(0.12) ? 1 + static_cast<int>(r.below(2)) : 0;
      int ns = r.chance(0.12) ? 1 + static_cast<int>(r.below(2)) : 0;
      std::vector<Step> s = renderTelegram(t, r, nm, ns);
      std::string mu = "ok";
      if (r.chance(mutP)) s = mutate(s, t, r, &mu);
      if (!note.empty()) note += "+";
      note += mu;
      all.insert(all.end(), s.begin(), s.end());
    }
    addScript(p, all, idle, note);
  }
}

static void addStalls(plan::Plan* p, Rng& r, int approxMs) {
  int n = 1 + static_cast<int>(r.below(2));
  for (int i = 0; i < n; i++) {
    char buf[128];
    snprintf(buf, sizeof(buf), "fault stall at=%d thread=bushandler ms=%d", static_cast<int>(r.below(static_cast<uint32_t>(std::max(approxMs, 100)))),
             20 + static_cast<int>(r.below(140)));
    p->add(buf);
  }
}

// ---- family c01a: passive reception only ----
static plan::Plan genC01a(uint64_t seed, const std::string& tier) {
  Rng r(seed);
  plan::Plan p;
  addKernelCfg(&p, r, seed, "c01a", false);
  uint8_t own = addHandlerCfg(&p, r, true, true);
  int n = tier == "thorough" ? 10 + static_cast<int>(r.below(50)) : 5 + static_cast<int>(r.below(30));
  addTraffic(&p, r, n, own, 0.4);
  if (r.chance(0.15)) addStalls(&p, r, n * 80);
  return p;
}

// ---------------------------------------------------------------------------------------------
// requests and reactions
// ---------------------------------------------------------------------------------------------
struct ReqGen {
  std::vector<std::string> seen;
  int counter = 0;
  Bytes make(Rng& r, uint8_t own, int dstKind = -1) {
    for (;;) {
      Tg t = randomTelegram(r, dstKind);
      t.master[0] = own;
      if (t.master[1] == own || t.master[1] == ref::slaveOf(own)) continue;
      // make the payload unique within the run
      counter++;
      if (t.master.size() >= 7) { t.master[5] = static_cast<uint8_t>(counter); t.master[6] = static_cast<uint8_t>(0xC0 + (counter >> 8)); }
      else { t.master[2] = static_cast<uint8_t>(counter); }
      std::string h = ref::hex(t.master);
      if (std::find(seen.begin(), seen.end(), h) != seen.end()) continue;
      seen.push_back(h);
      return t.master;
    }
  }
};

static std::string reactLine(Rng& r, int variant) {
  // variant < 0: random mix, mostly well behaved; otherwise the enumerated alternative
  char buf[256];
  char ack1 = 'A', ack2 = 'A', resp1 = 'G', resp2 = 'G';
  int echobad = -1;
  int ackval = 0x55;
  static const char acks[] = {'A', 'N', 'X', '-', 'S'};
  static const char resps[] = {'G', 'C', 'T', 'L', '-'};
  if (variant < 0) {
    int k = static_cast<int>(r.below(100));
    if (k < 55) { /* good */ }
    else if (k < 65) { ack1 = 'N'; ack2 = acks[r.below(5)]; }
    else if (k < 72) { ack1 = acks[2 + r.below(3)]; }
    else if (k < 88) { resp1 = resps[1 + r.below(4)]; resp2 = resps[r.below(5)]; }
    else { echobad = static_cast<int>(r.below(24)); }
    if (r.chance(0.1)) { ack1 = 'N'; ack2 = 'A'; resp1 = 'C'; resp2 = 'G'; }
  } else {
    int v = variant;
    if (v == 0) {}
    else if (v <= 4) { ack1 = 'N'; ack2 = acks[v == 1 ? 0 : v]; }           // N then A/X/-/S
    else if (v == 5) { ack1 = 'N'; ack2 = 'N'; }
    else if (v <= 8) { ack1 = acks[v - 4]; }                                 // X - S
    else if (v <= 24) { int q = v - 9; resp1 = resps[1 + q / 4]; resp2 = resps[(q % 4) == 3 ? 4 : (q % 4)]; }
    else { echobad = v - 25; }
  }
  ackval = 1 + static_cast<int>(r.below(254));
  if (ackval == 0xAA || ackval == 0xFF) ackval = 0x55;
  // response data: unique, escape heavy
  Bytes data;
  int nn = biasedLen(r);
  data.push_back(static_cast<uint8_t>(nn));
  for (int i = 0; i < nn; i++) data.push_back(biasedByte(r));
  snprintf(buf, sizeof(buf), "react ack1=%c ack2=%c resp1=%c resp2=%c ackval=%d echobad=%d xor=%d delay=%d data=%s", ack1, ack2, resp1, resp2,
           ackval, echobad, 1 << r.below(8), 200 + static_cast<int>(r.below(3000)), ref::hex(data).c_str());
  return buf;
}
static const int kReactVariants = 25 + 24;

static void addRequests(plan::Plan* p, Rng& r, ReqGen* g, uint8_t own, int n, int spanMs, bool allKinds, int firstId) {
  for (int i = 0; i < n; i++) {
    Bytes m = g->make(r, own);
    const char* kind = "sendwait";
    int restarts = 0;
    if (allKinds) {
      int k = static_cast<int>(r.below(10));
      if (k < 4) kind = "sendwait";
      else if (k < 7) { kind = "addwait"; restarts = r.chance(0.3) ? 1 + static_cast<int>(r.below(2)) : 0; }
      else { kind = "fire"; restarts = r.chance(0.3) ? 1 + static_cast<int>(r.below(2)) : 0; }
    }
    char buf[256];
    snprintf(buf, sizeof(buf), "req %s id=%d at=%d master=%s restarts=%d onempty=%d", kind, firstId + i, 100 + static_cast<int>(r.below(static_cast<uint32_t>(spanMs))),
             ref::hex(m).c_str(), restarts, (allKinds && std::string(kind) == "fire" && r.chance(0.4)) ? 1 : 0);
    p->add(buf);
  }
}

// ---- family c01b: passive reception while own requests are active ----
static plan::Plan genC01b(uint64_t seed, const std::string& tier) {
  Rng r(seed);
  plan::Plan p;
  addKernelCfg(&p, r, seed, "c01b", true);
  uint8_t own = addHandlerCfg(&p, r, false, true);
  int n = tier == "thorough" ? 10 + static_cast<int>(r.below(40)) : 5 + static_cast<int>(r.below(25));
  addTraffic(&p, r, n, own, 0.3);
  ReqGen g;
  int nreq = 1 + static_cast<int>(r.below(5));
  addRequests(&p, r, &g, own, nreq, n * 90, true, 100);
  for (int i = 0; i < nreq * 3; i++) p.add(reactLine(r, -1));
  if (r.chance(0.15)) addStalls(&p, r, n * 80);
  return p;
}

// ---- family c02: one caller, every kind of reaction of the addressed participant ----
static plan::Plan genC02(uint64_t seed, const std::string& tier) {
  Rng r(seed);
  plan::Plan p;
  (void)tier;
  addKernelCfg(&p, r, seed, "c02", true);
  uint8_t own = addHandlerCfg(&p, r, false, true);
  ReqGen g;
  int nreq = 1 + static_cast<int>(r.below(4));
  p.add("bus idle n=3");
  if (r.chance(0.4)) addTraffic(&p, r, 1 + static_cast<int>(r.below(6)), own, 0.2);
  for (int i = 0; i < nreq; i++) {
    Bytes m = g.make(r, own);
    char buf[256];
    snprintf(buf, sizeof(buf), "req sendwait id=%d at=%d master=%s", 100 + i, 150 + i * 400 + static_cast<int>(r.below(200)), ref::hex(m).c_str());
    p.add(buf);
  }
  for (int i = 0; i < nreq * 4; i++) p.add(reactLine(r, -1));
  p.add("cfg minms=" + std::to_string(200 + nreq * 400));
  return p;
}

// ---- family c02e: fault enumeration: base scenario x every reaction alternative ----
static plan::Plan genC02e(uint64_t seed, const std::string& tier) {
  (void)tier;
  uint64_t idx = seed & 0xffffffffULL;
  uint64_t base = seed >> 32;
  uint64_t scenario = idx / kReactVariants;
  int variant = static_cast<int>(idx % kReactVariants);
  Rng r(sim::hcomb(base, scenario));
  plan::Plan p;
  addKernelCfg(&p, r, seed, "c02e", true);
  uint8_t own = addHandlerCfg(&p, r, false, true);
  ReqGen g;
  Bytes m = g.make(r, own, static_cast<int>(scenario % 3) == 0 ? 0 : static_cast<int>(scenario % 3) == 1 ? 2 : 5);
  p.add("bus idle n=2");
  char buf[256];
  bool direct = r.chance(0.5);
  snprintf(buf, sizeof(buf), "req %s id=100 at=150 master=%s", direct ? "addwait" : "sendwait", ref::hex(m).c_str());
  p.add(buf);
  p.add(reactLine(r, variant));
  for (int i = 0; i < 8; i++) p.add(reactLine(r, 0));
  p.add("cfg minms=600 variant=" + std::to_string(variant) + " scenario=" + std::to_string(scenario));
  return p;
}

// ---- family c03: contention: scripted masters and ebusd compete for the same SYN ----
static plan::Plan genC03(uint64_t seed, const std::string& tier) {
  Rng r(seed);
  plan::Plan p;
  addKernelCfg(&p, r, seed, "c03", true);
  uint8_t own = addHandlerCfg(&p, r, true, true);
  int n = tier == "thorough" ? 20 + static_cast<int>(r.below(40)) : 10 + static_cast<int>(r.below(25));
  // dense traffic without idle SYNs so that requests meet scripted masters at the same SYN
  for (int i = 0; i < n; i++) {
    Tg t = randomTelegram(r, -1, own);
    std::vector<Step> s = renderTelegram(t, r, 0, 0);
    std::string mu = "ok";
    if (r.chance(0.15)) s = mutate(s, t, r, &mu);
    addScript(&p, s, r.chance(0.8) ? 0 : 1, mu);
    if (r.chance(0.1)) p.add("bus sigoff ms=" + std::to_string(100 + r.below(600)));
  }
  ReqGen g;
  int nreq = 2 + static_cast<int>(r.below(5));
  addRequests(&p, r, &g, own, nreq, n * 60, true, 100);
  for (int i = 0; i < nreq * 3; i++) p.add(reactLine(r, -1));
  if (r.chance(0.2)) addStalls(&p, r, n * 60);
  // reads that come back early without data (readiness without data, a poll that returns before its timeout): whoever
  // decides from the requested instead of the elapsed time that the bus was silent transmits too early
  if (r.chance(0.45)) {
    static const char* early[] = {"readagain", "readagain", "readzero", "pollearly"};
    int nf = 8 + static_cast<int>(r.below(40));
    if (r.chance(0.7)) p.add("cfg gensyn=1 readonly=0");   // mostly with ebusd as a candidate SYN generator
    for (int i = 0; i < nf; i++) {
      char fb[80];
      snprintf(fb, sizeof(fb), "fault %s io=%d", early[r.below(4)], 10 + static_cast<int>(r.below(static_cast<uint32_t>(n * 40))));
      p.add(fb);
    }
  }
  return p;
}

static const char* kIoFaults[] = {"readerr", "readzero", "writeerr", "writeshort", "pollerr", "pollhup", "polleintr", "pollearly"};

// ---- family c04: concurrent callers of every kind, device faults, signal loss ----
static plan::Plan genC04(uint64_t seed, const std::string& tier) {
  Rng r(seed);
  plan::Plan p;
  addKernelCfg(&p, r, seed, "c04", true);
  uint8_t own = addHandlerCfg(&p, r, false, true);
  int n = tier == "thorough" ? 5 + static_cast<int>(r.below(25)) : 3 + static_cast<int>(r.below(12));
  p.add("bus idle n=2");
  for (int i = 0; i < n; i++) {
    if (r.chance(0.5)) {
      Tg t = randomTelegram(r, -1, own);
      addScript(&p, renderTelegram(t, r, 0, 0), r.chance(0.5) ? 0 : 1 + static_cast<int>(r.below(3)), "ok");
    } else {
      p.add("bus idle n=" + std::to_string(1 + r.below(4)));
    }
    if (r.chance(0.12)) p.add("bus sigoff ms=" + std::to_string(200 + r.below(1500)));
  }
  ReqGen g;
  int nreq = 1 + static_cast<int>(r.below(6));
  int span = n * 70 + 200;
  if (r.chance(0.2)) {
    // the signal disappears for good: requests submitted afterwards must still complete (with an error)
    p.add("bus sigoff ms=100000000");
    span += 3000;
  }
  addRequests(&p, r, &g, own, nreq, span, true, 100);
  for (int i = 0; i < nreq * 4; i++) p.add(reactLine(r, -1));
  int nf = static_cast<int>(r.below(4));
  for (int i = 0; i < nf; i++) {
    char buf[160];
    int k = static_cast<int>(r.below(12));
    if (k < 8) snprintf(buf, sizeof(buf), "fault %s io=%d", kIoFaults[k], 20 + static_cast<int>(r.below(static_cast<uint32_t>(span / 2))));
    else if (k < 9) snprintf(buf, sizeof(buf), "fault hup at=%d", 100 + static_cast<int>(r.below(static_cast<uint32_t>(span))));
    else if (k < 10) snprintf(buf, sizeof(buf), "fault openfail at=%d n=%d", static_cast<int>(r.below(static_cast<uint32_t>(span))), 1 + static_cast<int>(r.below(2)));
    else snprintf(buf, sizeof(buf), "fault stall at=%d thread=%s ms=%d", 100 + static_cast<int>(r.below(static_cast<uint32_t>(span))), r.chance(0.7) ? "bushandler" : "caller",
                  20 + static_cast<int>(r.below(300)));
    p.add(buf);
  }
  if (r.chance(0.3)) p.add("cfg spurious=0.05");
  return p;
}

// ---- family c04s: the bus thread is stalled right around the arbitration of a request, with foreign traffic going on ----
// (late arbitration results - won or lost - then reach a handler that has moved on; mostly on the enhanced device)
static plan::Plan genC04s(uint64_t seed, const std::string& tier) {
  Rng r(seed);
  plan::Plan p;
  addKernelCfg(&p, r, seed, "c04s", true);
  uint8_t own = addHandlerCfg(&p, r, false, true, -1, 0.7);
  int n = tier == "thorough" ? 6 + static_cast<int>(r.below(20)) : 4 + static_cast<int>(r.below(10));
  p.add("bus idle n=2");
  for (int i = 0; i < n; i++) {
    if (r.chance(0.75)) {
      Tg t = randomTelegram(r, -1, own);
      addScript(&p, renderTelegram(t, r, 0, 0), r.chance(0.6) ? 0 : 1 + static_cast<int>(r.below(2)), "ok");
    } else {
      p.add("bus idle n=" + std::to_string(1 + r.below(3)));
    }
  }
  ReqGen g;
  int nreq = 1 + static_cast<int>(r.below(4));
  int span = n * 70 + 100;
  addRequests(&p, r, &g, own, nreq, span, true, 100);
  for (int i = 0; i < nreq * 4; i++) p.add(reactLine(r, -1));
  std::vector<int> ats;
  for (auto& l : p.lines) if (l.kind == "req") ats.push_back(static_cast<int>(l.num("at")));
  int ns = 1 + static_cast<int>(r.below(3));
  for (int i = 0; i < ns && !ats.empty(); i++) {
    char buf[160];
    snprintf(buf, sizeof(buf), "fault stall at=%d thread=bushandler ms=%d", ats[r.below(static_cast<uint32_t>(ats.size()))] + static_cast<int>(r.below(220)), 40 + static_cast<int>(r.below(280)));
    p.add(buf);
  }
  if (r.chance(0.3)) p.add("cfg spurious=0.05");
  return p;
}

// ---- family c04e: fault enumeration over the I/O call positions of a base scenario ----
static plan::Plan genC04e(uint64_t seed, const std::string& tier) {
  (void)tier;
  uint64_t idx = seed & 0xffffffffULL;
  uint64_t base = seed >> 32;
  const int nKinds = 8, nPos = 60;
  uint64_t scenario = idx / (nKinds * nPos);
  int v = static_cast<int>(idx % (nKinds * nPos));
  int kind = v % nKinds, posIdx = v / nKinds;
  Rng r(sim::hcomb(base, scenario) ^ 0x04e);
  plan::Plan p;
  addKernelCfg(&p, r, seed, "c04e", true);
  uint8_t own = addHandlerCfg(&p, r, false, true);
  p.add("bus idle n=2");
  for (int i = 0; i < 4; i++) {
    Tg t = randomTelegram(r, -1, own);
    addScript(&p, renderTelegram(t, r, 0, 0), 1, "ok");
  }
  ReqGen g;
  addRequests(&p, r, &g, own, 3, 300, true, 100);
  for (int i = 0; i < 12; i++) p.add(reactLine(r, 0));
  // I/O positions: the scenario performs a few hundred calls on the device fd; sweep them with stride 3 from 10 on
  char buf[160];
  snprintf(buf, sizeof(buf), "fault %s io=%d", kIoFaults[kind], 10 + posIdx * 3);
  p.add(buf);
  p.add("cfg scenario=" + std::to_string(scenario) + " variant=" + std::to_string(v));
  return p;
}

// ---- family c15: answer mode ----
static plan::Plan genC15(uint64_t seed, const std::string& tier) {
  Rng r(seed);
  plan::Plan p;
  addKernelCfg(&p, r, seed, "c15", false);
  uint8_t own = addHandlerCfg(&p, r, false, true, 1);
  uint8_t ownSlave = ref::slaveOf(own);
  // registered answers
  struct Ans { int src; uint8_t dst, pb, sb; Bytes id, data; };
  std::vector<Ans> answers;
  int na = 1 + static_cast<int>(r.below(5));
  uint8_t pbs[2] = {biasedByte(r), biasedByte(r)};
  for (int i = 0; i < na; i++) {
    Ans a;
    a.src = r.chance(0.3) ? r.pick(masters()) : -1;
    if (a.src == own) a.src = -1;
    int dk = static_cast<int>(r.below(10));
    a.dst = dk < 5 ? ownSlave : dk < 8 ? own : (r.chance(0.5) ? randomSlaveAddr(r) : r.pick(masters()));
    a.pb = pbs[r.below(2)];
    a.sb = pbs[r.below(2)];
    int idl = static_cast<int>(r.below(5));
    // share prefixes between answers
    for (int k = 0; k < idl; k++) a.id.push_back(static_cast<uint8_t>(r.chance(0.7) ? 0x10 + k : biasedByte(r)));
    if (ref::isMaster(a.dst)) {
      int tail = static_cast<int>(r.below(4));
      a.data.push_back(static_cast<uint8_t>(tail));
      for (int k = 0; k < tail; k++) a.data.push_back(0);
    } else {
      int nn = biasedLen(r);
      a.data.push_back(static_cast<uint8_t>(nn));
      for (int k = 0; k < nn; k++) a.data.push_back(biasedByte(r));
    }
    answers.push_back(a);
    char buf[300];
    std::string srcs = a.src >= 0 ? " src=" + hexByte(a.src) : "";
    snprintf(buf, sizeof(buf), "answer dst=%s pb=%s sb=%s id=%s data=%s%s", hexByte(a.dst).c_str(), hexByte(a.pb).c_str(), hexByte(a.sb).c_str(),
             ref::hex(a.id).c_str(), ref::hex(a.data).c_str(), srcs.c_str());
    p.add(buf);
  }
  int n = tier == "thorough" ? 10 + static_cast<int>(r.below(40)) : 6 + static_cast<int>(r.below(20));
  p.add("bus idle n=2");
  for (int i = 0; i < n; i++) {
    if (r.chance(0.25)) { addTraffic(&p, r, 1, own, 0.2); continue; }
    // a telegram derived from a registered answer: same/shorter/longer ID, other source, other destination
    const Ans& a = answers[r.below(static_cast<uint32_t>(answers.size()))];
    uint8_t qq;
    do { qq = r.chance(0.5) && a.src >= 0 ? static_cast<uint8_t>(a.src) : r.pick(masters()); } while (qq == own);
    uint8_t zz = r.chance(0.85) ? a.dst : (r.chance(0.5) ? ownSlave : own);
    if (zz == qq) zz = ownSlave;
    Bytes id = a.id;
    int how = static_cast<int>(r.below(10));
    if (how < 2 && !id.empty()) id.pop_back();
    else if (how < 5) { int extra = 1 + static_cast<int>(r.below(12)); for (int k = 0; k < extra && id.size() < 16; k++) id.push_back(biasedByte(r)); }
    else if (how < 6 && !id.empty()) id[r.below(static_cast<uint32_t>(id.size()))] ^= 0x40;
    if (ref::isMaster(zz) && r.chance(0.6)) {
      // master destination: ID followed by a data tail of the registered length
      id = a.id;
      size_t tail = a.data.empty() ? 0 : a.data[0];
      for (size_t k = 0; k < tail && id.size() < 16; k++) id.push_back(biasedByte(r));
    }
    Bytes m = {qq, zz, r.chance(0.9) ? a.pb : biasedByte(r), r.chance(0.9) ? a.sb : biasedByte(r), static_cast<uint8_t>(id.size())};
    m.insert(m.end(), id.begin(), id.end());
    Bytes wire = ref::renderMasterPart(m);
    bool badFirst = r.chance(0.2);
    std::vector<Step> steps;
    addBytes(&steps, badFirst ? corruptCrc(wire) : wire, 'M', r);
    Bytes second = r.chance(0.25) ? corruptCrc(wire) : wire;
    if (badFirst && r.chance(0.4)) {
      // the "repetition" after the NAK is another telegram of the same requester: to a slave nobody answers for, or with
      // the ID of another registered answer - what was decided for the first attempt must not carry over
      Bytes m2 = m;
      if (r.chance(0.5)) { do { m2[1] = randomSlaveAddr(r); } while (m2[1] == ownSlave || m2[1] == own); }
      else {
        const Ans& b = answers[r.below(static_cast<uint32_t>(answers.size()))];
        m2.resize(5);
        m2[2] = b.pb; m2[3] = b.sb;
        Bytes id2 = b.id;
        if (r.chance(0.3)) id2.push_back(biasedByte(r));
        m2[4] = static_cast<uint8_t>(id2.size());
        m2.insert(m2.end(), id2.begin(), id2.end());
      }
      second = ref::renderMasterPart(m2);
    }
    char buf[600];
    snprintf(buf, sizeof(buf), "bus requester idle=%d slave=%d nakresp=%d second=%s note=%s steps=%s", static_cast<int>(r.below(2)), ref::isMaster(zz) ? 0 : 1,
             r.chance(0.25) ? 1 + static_cast<int>(r.below(2)) : 0, ref::hex(second).c_str(), badFirst ? "badcrc" : "ok", simbus::stepsToText(steps).c_str());
    p.add(buf);
  }
  return p;
}

struct Reg {
  Reg() {
    hz::registerFamily(hz::Family{"c04s", "l1", genC04s, "bus thread stalled around the arbitration of requests, foreign traffic, mostly enhanced device"});
    hz::registerFamily(hz::Family{"c01a", "l1", genC01a, "passive reception: well-formed, mutated and noisy traffic, no own requests"});
    hz::registerFamily(hz::Family{"c01b", "l1", genC01b, "passive reception while own requests of all kinds are active"});
    hz::registerFamily(hz::Family{"c02", "l1", genC02, "active requests against a reacting participant (random reactions)"});
    hz::registerFamily(hz::Family{"c02e", "l1", genC02e, "fault enumeration: base scenario x every reaction/echo alternative", true});
    hz::registerFamily(hz::Family{"c03", "l1", genC03, "contention: dense scripted traffic, requests at every phase, signal loss"});
    hz::registerFamily(hz::Family{"c04", "l1", genC04, "concurrent callers of every kind, device faults, signal loss, stalls"});
    hz::registerFamily(hz::Family{"c04e", "l1", genC04e, "fault enumeration over I/O call positions x fault kinds of a base scenario", true});
    hz::registerFamily(hz::Family{"c15", "l1", genC15, "answer mode: registered answers and telegrams derived from them"});
  }
} g_reg;

}  // namespace l1gen
