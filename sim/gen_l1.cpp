// Plan generators for the L1 families (seed -> plan text).  Everything random is drawn here from the run seed,
// the resulting plan is fully explicit so that it can be edited and replayed.
#include <stdio.h>

#include <algorithm>

#include "harness.h"
#include "ref.h"
#include "simbus.h"

namespace l1gen {

using ref::Bytes;
using sim::Rng;
using simbus::Step;

static const std::vector<uint8_t>& masters() {
  static std::vector<uint8_t> m = ref::allMasters();
  return m;
}

static uint8_t biasedByte(Rng& r) {
  static const uint8_t special[] = {0xA9, 0xAA, 0x00, 0x01, 0xFF, 0xA8, 0xAB, 0x80, 0x7F};
  if (r.chance(0.35)) return special[r.below(sizeof(special))];
  return static_cast<uint8_t>(r.below(256));
}

static uint8_t randomSlaveAddr(Rng& r) {
  for (;;) {
    uint8_t a = static_cast<uint8_t>(r.below(256));
    if (a == ref::SYN || a == ref::ESC || a == ref::BROADCAST || ref::isMaster(a)) continue;
    return a;
  }
}

static int biasedLen(Rng& r) {
  int k = static_cast<int>(r.below(10));
  if (k < 3) return 0 + static_cast<int>(r.below(3));
  if (k < 5) return 16;
  if (k < 6) return 15;
  return static_cast<int>(r.below(17));
}

struct Tg {
  Bytes master, slave;   // unescaped
  bool hasSlave = false, hasAck = false;
};

static Tg randomTelegram(Rng& r, int forceDst = -1, int notSrc = -1) {
  Tg t;
  uint8_t qq;
  do { qq = r.pick(masters()); } while (qq == notSrc);
  uint8_t zz;
  int kind = forceDst >= 0 ? forceDst : static_cast<int>(r.below(10));
  if (kind < 2) zz = ref::BROADCAST;
  else if (kind < 4) { do { zz = r.pick(masters()); } while (zz == qq); }
  else zz = r.chance(0.3) ? ref::slaveOf(r.pick(masters())) : randomSlaveAddr(r);
  int nn = biasedLen(r);
  // optionally search for data whose CRC needs escaping
  bool wantEscCrc = r.chance(0.15);
  for (int attempt = 0; attempt < 300; attempt++) {
    t.master = {qq, zz, biasedByte(r), biasedByte(r), static_cast<uint8_t>(nn)};
    for (int i = 0; i < nn; i++) t.master.push_back(biasedByte(r));
    uint8_t c = ref::crcOf(t.master);
    if (!wantEscCrc || c == 0xA9 || c == 0xAA) break;
  }
  t.hasAck = zz != ref::BROADCAST;
  t.hasSlave = zz != ref::BROADCAST && !ref::isMaster(zz);
  if (t.hasSlave) {
    int sn = biasedLen(r);
    bool wantEsc = r.chance(0.15);
    for (int attempt = 0; attempt < 300; attempt++) {
      t.slave = {static_cast<uint8_t>(sn)};
      for (int i = 0; i < sn; i++) t.slave.push_back(biasedByte(r));
      uint8_t c = ref::crcOf(t.slave);
      if (!wantEsc || c == 0xA9 || c == 0xAA) break;
    }
  }
  return t;
}

static void addBytes(std::vector<Step>* out, const Bytes& b, char who, Rng& r) {
  for (uint8_t x : b) {
    Step s;
    s.who = who;
    s.b = x;
    s.gap = r.chance(0.15) ? static_cast<sim::ns_t>(r.below(6000)) * sim::US : 0;
    out->push_back(s);
  }
}

static Bytes corruptCrc(Bytes wire) {
  // wire = escaped bytes + escaped crc: flip a bit of the last byte, keeping it a legal raw symbol
  if (wire.empty()) return wire;
  size_t n = wire.size();
  if (n >= 2 && wire[n - 2] == ref::ESC) { wire[n - 1] ^= 0x01; return wire; }
  uint8_t v = static_cast<uint8_t>(wire[n - 1] ^ 0x10);
  if (v == ref::ESC || v == ref::SYN) v = static_cast<uint8_t>(wire[n - 1] ^ 0x20);
  wire[n - 1] = v;
  return wire;
}

// renders a well formed telegram with optional NAK-and-repeat of either part; returns the symbol list incl. final SYN
static std::vector<Step> renderTelegram(const Tg& t, Rng& r, int nakMaster, int nakSlave) {
  // nakX: 0 none, 1 first attempt bad CRC + NAK + good repeat, 2 first attempt good CRC but NAK-ed + repeat
  std::vector<Step> s;
  Bytes mw = ref::renderMasterPart(t.master);
  if (t.hasAck && nakMaster) {
    addBytes(&s, nakMaster == 1 ? corruptCrc(mw) : mw, 'M', r);
    addBytes(&s, Bytes{ref::NAK}, 'S', r);
  }
  addBytes(&s, mw, 'M', r);
  if (t.hasAck) {
    addBytes(&s, Bytes{ref::ACK}, 'S', r);
    if (t.hasSlave) {
      Bytes sw = ref::renderSlavePart(t.slave);
      if (nakSlave) {
        addBytes(&s, nakSlave == 1 ? corruptCrc(sw) : sw, 'S', r);
        addBytes(&s, Bytes{ref::NAK}, 'M', r);
      }
      addBytes(&s, sw, 'S', r);
      addBytes(&s, Bytes{ref::ACK}, 'M', r);
    }
  }
  addBytes(&s, Bytes{ref::SYN}, 'M', r);
  return s;
}

static const char* kMutations[] = {"flip", "drop", "insert", "truncsyn", "gap", "badcrc", "badesc", "nonmaster",
                                   "selfdst", "escdst", "wrongack", "noack", "secondnak", "synmid"};

static std::vector<Step> mutate(std::vector<Step> s, const Tg& t, Rng& r, std::string* name) {
  int m = static_cast<int>(r.below(sizeof(kMutations) / sizeof(kMutations[0])));
  *name = kMutations[m];
  size_t n = s.size() > 1 ? s.size() - 1 : 1;  // exclude the final SYN
  size_t p = r.below(static_cast<uint32_t>(n));
  std::string mu = *name;
  if (mu == "flip") {
    uint8_t x = static_cast<uint8_t>(1u << r.below(8));
    s[p].b ^= x;
  } else if (mu == "drop") {
    s.erase(s.begin() + static_cast<long>(p));
  } else if (mu == "insert") {
    Step st = s[p];
    st.b = biasedByte(r);
    s.insert(s.begin() + static_cast<long>(p), st);
  } else if (mu == "truncsyn") {
    s.resize(p);
    Step st; st.who = 'M'; st.b = ref::SYN;
    s.push_back(st);
  } else if (mu == "gap") {
    if (p == 0) p = 1 % n;
    s[p].gap = static_cast<sim::ns_t>(80 + r.below(60)) * sim::MS;
  } else if (mu == "badcrc") {
    // corrupt the master CRC (last byte of the master part)
    Bytes mw = ref::renderMasterPart(t.master);
    size_t idx = mw.size() - 1;
    if (idx < s.size()) s[idx].b ^= 0x04;
    if (s[idx].b == ref::SYN || s[idx].b == ref::ESC) s[idx].b ^= 0x08;
  } else if (mu == "badesc") {
    Step st = s[p];
    st.b = ref::ESC;
    Step st2 = s[p];
    st2.b = static_cast<uint8_t>(2 + r.below(250));
    if (st2.b == ref::SYN) st2.b = 0x55;
    s[p] = st;
    s.insert(s.begin() + static_cast<long>(p) + 1, st2);
  } else if (mu == "nonmaster") {
    // replace the source by a non master address and fix the CRC so that only the address rule rejects it
    Tg t2 = t;
    t2.master[0] = randomSlaveAddr(r);
    return renderTelegram(t2, r, 0, 0);
  } else if (mu == "selfdst") {
    Tg t2 = t;
    t2.master[1] = t2.master[0];
    t2.hasAck = true;
    t2.hasSlave = false;
    return renderTelegram(t2, r, 0, 0);
  } else if (mu == "escdst") {
    Tg t2 = t;
    t2.master[1] = r.chance(0.5) ? ref::ESC : ref::SYN;   // sent escaped: A9 00 / A9 01
    t2.hasAck = true;
    t2.hasSlave = false;
    return renderTelegram(t2, r, 0, 0);
  } else if (mu == "wrongack") {
    for (size_t i = 0; i < s.size(); i++) {
      if ((s[i].b == ref::ACK) && (s[i].who == 'S' || i > 6) && r.chance(0.6)) { s[i].b = static_cast<uint8_t>(1 + r.below(254)); if (s[i].b == ref::SYN || s[i].b == ref::NAK) s[i].b = 0x55; break; }
    }
  } else if (mu == "noack") {
    Bytes mw = ref::renderMasterPart(t.master);
    if (mw.size() < s.size()) {
      s.resize(mw.size());
      Step st; st.who = 'M'; st.b = ref::SYN; st.gap = static_cast<sim::ns_t>(r.below(20)) * sim::MS;
      s.push_back(st);
    }
  } else if (mu == "secondnak") {
    Bytes mw = ref::renderMasterPart(t.master);
    std::vector<Step> o;
    addBytes(&o, mw, 'M', r);
    addBytes(&o, Bytes{ref::NAK}, 'S', r);
    addBytes(&o, mw, 'M', r);
    addBytes(&o, Bytes{ref::NAK}, 'S', r);
    if (r.chance(0.5)) { addBytes(&o, mw, 'M', r); addBytes(&o, Bytes{ref::ACK}, 'S', r); }
    addBytes(&o, Bytes{ref::SYN}, 'M', r);
    return o;
  } else if (mu == "synmid") {
    Step st = s[p];
    st.b = ref::SYN;
    s.insert(s.begin() + static_cast<long>(p), st);
  }
  return s;
}

static std::string hexByte(int v) {
  char b[8];
  snprintf(b, sizeof(b), "0x%02x", v & 0xff);
  return b;
}

// common configuration lines
static void addKernelCfg(plan::Plan* p, Rng& r, uint64_t seed, const char* family, bool threads) {
  char buf[400];
  int policy = threads ? static_cast<int>(r.below(4)) : 0;
  static const double sw[] = {0.02, 0.05, 0.1, 0.2, 0.5};
  snprintf(buf, sizeof(buf), "cfg harness=l1 family=%s seed=%llu policy=%d switchp=%.2f pctdepth=%d pctsteps=%d starve=%s callcost=%d", family,
           static_cast<unsigned long long>(seed), policy, sw[r.below(5)], 1 + static_cast<int>(r.below(3)), 500 + static_cast<int>(r.below(3000)),
           r.chance(0.5) ? "bushandler" : "caller", 1000 + static_cast<int>(r.below(20000)));
  p->add(buf);
}

static uint8_t addHandlerCfg(plan::Plan* p, Rng& r, bool allowReadOnly, bool allowEnhanced, int forceAnswer = -1) {
  char buf[400];
  uint8_t own = r.chance(0.5) ? 0x31 : r.pick(masters());
  bool readOnly = allowReadOnly && r.chance(0.25);
  bool answer = forceAnswer >= 0 ? forceAnswer != 0 : r.chance(0.2);
  static const int locks[] = {0, 0, 3, 5, 25};
  bool enhanced = allowEnhanced && r.chance(0.4);
  snprintf(buf, sizeof(buf), "cfg own=%s readonly=%d answer=%d lockcount=%d gensyn=%d acqtimeout=10 recvtimeout=25 acqretries=%d sendretries=%d extralat=%d enhanced=%d",
           hexByte(own).c_str(), readOnly ? 1 : 0, answer ? 1 : 0, locks[r.below(5)], r.chance(0.2) ? 1 : 0, static_cast<int>(r.below(4)),
           static_cast<int>(r.below(3)), r.chance(0.2) ? 10 : 0, enhanced ? 1 : 0);
  p->add(buf);
  static const int batches[] = {0, 0, 0, 0, 3000, 8000, 16000};
  snprintf(buf, sizeof(buf), "cfg rxlat=%d txlat=%d synperiod=%d arbdelay=%d chunk=%d batch=%d enhplain=%d", static_cast<int>(r.below(2500)),
           static_cast<int>(r.below(1000)), 36000 + static_cast<int>(r.below(12000)), 50 + static_cast<int>(r.below(1500)), static_cast<int>(r.below(3)),
           batches[r.below(7)], r.chance(0.5) ? 100 : static_cast<int>(r.below(101)));
  p->add(buf);
  return own;
}

static void addScript(plan::Plan* p, const std::vector<Step>& s, int idle, const std::string& note) {
  p->add("bus script idle=" + std::to_string(idle) + " note=" + note + " steps=" + simbus::stepsToText(s));
}

static void addTraffic(plan::Plan* p, Rng& r, int nItems, uint8_t own, double mutP) {
  for (int i = 0; i < nItems; i++) {
    int k = static_cast<int>(r.below(100));
    int idle = r.chance(0.6) ? 0 : static_cast<int>(r.below(3));
    if (k < 5) {
      p->add("bus idle n=" + std::to_string(1 + r.below(4)));
      continue;
    }
    if (k < 10) {
      // noise fragment
      std::vector<Step> s;
      int n = 1 + static_cast<int>(r.below(12));
      for (int q = 0; q < n; q++) { Step st; st.who = 'N'; st.b = biasedByte(r); s.push_back(st); }
      addScript(p, s, idle, "noise");
      continue;
    }
    // sometimes two or three telegrams back to back in one script
    int count = r.chance(0.2) ? 2 + static_cast<int>(r.below(2)) : 1;
    std::vector<Step> all;
    std::string note;
    for (int c = 0; c < count; c++) {
      Tg t = randomTelegram(r, -1, r.chance(0.9) ? own : -1);
      int nm = r.chance(0.12) ? 1 + static_cast<int>(r.below(2)) : 0;
      int ns = r.chance(0.12) ? 1 + static_cast<int>(r.below(2)) : 0;
      std::vector<Step> s = renderTelegram(t, r, nm, ns);
      std::string mu = "ok";
      if (r.chance(mutP)) s = mutate(s, t, r, &mu);
      if (!note.empty()) note += "+";
      note += mu;
      all.insert(all.end(), s.begin(), s.end());
    }
    addScript(p, all, idle, note);
  }
}

static void addStalls(plan::Plan* p, Rng& r, int approxMs) {
  int n = 1 + static_cast<int>(r.below(2));
  for (int i = 0; i < n; i++) {
    char buf[128];
    snprintf(buf, sizeof(buf), "fault stall at=%d thread=bushandler ms=%d", static_cast<int>(r.below(static_cast<uint32_t>(std::max(approxMs, 100)))),
             20 + static_cast<int>(r.below(140)));
    p->add(buf);
  }
}

// ---- family c01a: passive reception only ----
static plan::Plan genC01a(uint64_t seed, const std::string& tier) {
  Rng r(seed);
  plan::Plan p;
  addKernelCfg(&p, r, seed, "c01a", false);
  uint8_t own = addHandlerCfg(&p, r, true, false);
  int n = tier == "thorough" ? 10 + static_cast<int>(r.below(50)) : 5 + static_cast<int>(r.below(30));
  addTraffic(&p, r, n, own, 0.4);
  if (r.chance(0.15)) addStalls(&p, r, n * 80);
  return p;
}

struct Reg {
  Reg() {
    hz::registerFamily(hz::Family{"c01a", "l1", genC01a, "passive reception: well-formed, mutated and noisy traffic, no own requests"});
  }
} g_reg;

}  // namespace l1gen
