// Reference eBUS primitives and grammar, written from the eBUS specification and the property texts.
// Nothing in this file includes or calls code of /repo.
#ifndef VERIF_REF_H_
#define VERIF_REF_H_

#include <stdint.h>
#include <string>
#include <vector>

namespace ref {

typedef std::vector<uint8_t> Bytes;

constexpr uint8_t SYN = 0xAA, ESC = 0xA9, ACK = 0x00, NAK = 0xFF, BROADCAST = 0xFE;

// CRC-8, generator x^8+x^7+x^4+x^3+x+1 (0x9B), initial value 0, bitwise polynomial division
inline uint8_t crcStep(uint8_t crc, uint8_t byte) {
  for (int i = 0; i < 8; i++) {
    bool top = (crc & 0x80) != 0;
    crc = static_cast<uint8_t>(crc << 1);
    if (byte & 0x80) crc |= 1;
    byte = static_cast<uint8_t>(byte << 1);
    if (top) crc ^= 0x9B;
  }
  return crc;
}
// CRC over the *escaped* representation of the given unescaped bytes
inline uint8_t crcOf(const Bytes& unescaped) {
  uint8_t crc = 0;
  for (uint8_t b : unescaped) {
    if (b == ESC) { crc = crcStep(crc, ESC); crc = crcStep(crc, 0x00); }
    else if (b == SYN) { crc = crcStep(crc, ESC); crc = crcStep(crc, 0x01); }
    else crc = crcStep(crc, b);
  }
  return crc;
}
inline void escapeInto(uint8_t b, Bytes* out) {
  if (b == ESC) { out->push_back(ESC); out->push_back(0x00); }
  else if (b == SYN) { out->push_back(ESC); out->push_back(0x01); }
  else out->push_back(b);
}
inline Bytes escaped(const Bytes& in) {
  Bytes out;
  for (uint8_t b : in) escapeInto(b, &out);
  return out;
}
inline bool masterNibble(uint8_t n) { return n == 0x0 || n == 0x1 || n == 0x3 || n == 0x7 || n == 0xF; }
inline bool isMaster(uint8_t a) { return masterNibble(a & 0x0F) && masterNibble(a >> 4); }
inline bool isValidAddress(uint8_t a) { return a != SYN && a != ESC; }
inline uint8_t slaveOf(uint8_t master) { return static_cast<uint8_t>(master + 5); }
inline std::vector<uint8_t> allMasters() {
  std::vector<uint8_t> v;
  for (int a = 0; a < 256; a++) if (isMaster(static_cast<uint8_t>(a))) v.push_back(static_cast<uint8_t>(a));
  return v;
}
inline std::string hex(const Bytes& b) {
  static const char* d = "0123456789abcdef";
  std::string s;
  for (uint8_t x : b) { s += d[x >> 4]; s += d[x & 15]; }
  return s;
}
inline Bytes unhex(const std::string& s) {
  Bytes b;
  auto v = [](char c) { return c >= '0' && c <= '9' ? c - '0' : c >= 'a' && c <= 'f' ? c - 'a' + 10 : c >= 'A' && c <= 'F' ? c - 'A' + 10 : 0; };
  for (size_t i = 0; i + 1 < s.size(); i += 2) b.push_back(static_cast<uint8_t>(v(s[i]) * 16 + v(s[i + 1])));
  return b;
}

// A telegram in unescaped form. master = QQ ZZ PB SB NN D..., slave = NN D... (empty unless ZZ is a slave address)
struct Telegram {
  Bytes master;
  Bytes slave;
  bool operator==(const Telegram& o) const { return master == o.master && slave == o.slave; }
};

// full wire rendering of a well-formed telegram (without leading SYN); used by generators
inline Bytes renderMasterPart(const Bytes& master) {
  Bytes out = escaped(master);
  escapeInto(crcOf(master), &out);
  return out;
}
inline Bytes renderSlavePart(const Bytes& slave) {
  Bytes out = escaped(slave);
  escapeInto(crcOf(slave), &out);
  return out;
}

// ---------------------------------------------------------------------------------------------
// Passive wire-log parser (DESIGN appendix B).  Input: the symbols handed to ebusd, each with its delivery
// time and flags.  Output: the telegrams that MUST be reported, in order, with an EITHER flag where the
// property does not decide.
// ---------------------------------------------------------------------------------------------
struct RxSym {
  uint8_t b;
  int64_t t;        // delivery time in ns
  bool own;         // ebusd contributed to this symbol on the wire
  bool fuzzy;       // timing of this symbol is not decidable (stall/overflow window): gaps around it are EITHER
  bool reset;       // device was (re)opened before this symbol: parser restarts in 'wait for SYN'
};
struct Expected {
  Telegram tg;
  bool either;      // may or may not be reported
  size_t endIndex;  // index of the final symbol in the input
  bool own;         // sent or answered by ebusd itself (not an md_recv report)
  bool ownAnswer;
};

class PassiveParser {
 public:
  // gaps <= gapLo never truncate, gaps >= gapHi always truncate, in between: EITHER
  // ownAddr: ebusd's master address (a first symbol ebusd contributed to makes the telegram its own only when the wire
  // carries that address, i.e. when it did not lose the arbitration to a lower address)
  // answerAny: ebusd runs in answer mode, where it may answer on behalf of any registered destination
  PassiveParser(int64_t gapLo, int64_t gapHi, int ownAddr = -1, bool answerAny = true) : m_gapLo(gapLo), m_gapHi(gapHi), m_ownAddr(ownAddr), m_answerAny(answerAny) {}
  std::vector<Expected> parse(const std::vector<RxSym>& in) const;
  // corrupted traffic seen (for reach counters)
  mutable uint64_t nInvalid = 0, nEitherGap = 0, nNakRepeat = 0, nTruncSyn = 0, nTruncGap = 0;

 private:
  int64_t m_gapLo, m_gapHi;
  int m_ownAddr;
  bool m_answerAny;
};

inline std::vector<Expected> PassiveParser::parse(const std::vector<RxSym>& in) const {
  std::vector<Expected> out;
  size_t i = 0;
  const size_t n = in.size();
  bool synced = false;
  while (i < n) {
    if (in[i].reset) synced = false;
    if (!synced) {
      if (in[i].b == SYN) synced = true;
      i++;
      continue;
    }
    if (in[i].b == SYN) { i++; continue; }
    // a telegram attempt starts at i (first symbol after a SYN)
    bool either = false;      // undecidable by timing or NN > 16
    bool invalid = false;
    bool own = in[i].own && (m_ownAddr < 0 || in[i].b == m_ownAddr);     // QQ contributed by ebusd and not overruled on the wire
    bool ownAnswer = false;
    bool hitSyn = false, hitReset = false;
    size_t pos = i;
    int64_t lastT = in[i].t;
    bool lastFuzzy = in[i].fuzzy;
    // reads one raw symbol; returns false on SYN/end/reset/definite gap (telegram over)
    auto raw = [&](uint8_t* b, bool* ownSym) -> bool {
      if (pos >= n) { invalid = true; return false; }
      if (in[pos].reset) { hitReset = true; invalid = true; return false; }
      if (pos > i) {
        int64_t gap = in[pos].t - lastT;
        if (in[pos].fuzzy || lastFuzzy) {
          if (gap > m_gapLo) { either = true; }
        } else if (gap >= m_gapHi) {
          nTruncGap++;
          invalid = true;
          return false;
        } else if (gap > m_gapLo) {
          either = true;
          nEitherGap++;
        }
      }
      if (in[pos].b == SYN) { hitSyn = true; nTruncSyn++; invalid = true; return false; }
      // a symbol whose timing ebusd could not observe faithfully (its thread was stalled, bytes were discarded):
      // ebusd's deadline may have expired by the time it looked at it, the telegram is not decided
      if (in[pos].fuzzy) either = true;
      *b = in[pos].b;
      if (ownSym) *ownSym = in[pos].own;
      lastT = in[pos].t;
      lastFuzzy = in[pos].fuzzy;
      pos++;
      return true;
    };
    // reads one unescaped symbol and folds the raw bytes into crc
    auto u = [&](uint8_t* b, uint8_t* crc) -> bool {
      uint8_t r;
      if (!raw(&r, nullptr)) return false;
      if (crc) *crc = crcStep(*crc, r);
      if (r == ESC) {
        uint8_t r2;
        if (!raw(&r2, nullptr)) return false;
        if (crc) *crc = crcStep(*crc, r2);
        if (r2 == 0x00) *b = ESC;
        else if (r2 == 0x01) *b = SYN;
        else { invalid = true; return false; }
        return true;
      }
      *b = r;
      return true;
    };
    Telegram tg;
    bool selfDst = false;
    auto readMaster = [&](bool* crcOk) -> bool {
      tg.master.clear();
      selfDst = false;
      uint8_t crc = 0, b;
      for (int k = 0; k < 5; k++) {
        if (!u(&b, &crc)) return false;
        tg.master.push_back(b);
        if (k == 0 && !isMaster(b)) { invalid = true; return false; }
        if (k == 1 && !isValidAddress(b)) { invalid = true; return false; }
        if (k == 1 && b == tg.master[0]) selfDst = true;   // decided once it is known whether this attempt is the accepted one
      }
      uint8_t nn = tg.master[4];
      if (nn > 16) { either = true; invalid = true; return false; }
      for (int k = 0; k < nn; k++) {
        if (!u(&b, &crc)) return false;
        tg.master.push_back(b);
      }
      uint8_t c;
      if (!u(&c, nullptr)) return false;
      *crcOk = c == crc;
      return true;
    };
    auto readSlave = [&](bool* crcOk) -> bool {
      tg.slave.clear();
      uint8_t crc = 0, b;
      if (!u(&b, &crc)) return false;
      tg.slave.push_back(b);
      uint8_t nn = b;
      if (nn > 16) { either = true; invalid = true; return false; }
      for (int k = 0; k < nn; k++) {
        if (!u(&b, &crc)) return false;
        tg.slave.push_back(b);
      }
      uint8_t c;
      if (!u(&c, nullptr)) return false;
      *crcOk = c == crc;
      return true;
    };
    bool complete = false;
    do {
      bool crcOk = false;
      if (!readMaster(&crcOk)) break;
      uint8_t zz = tg.master[1];
      bool firstSelfDst = selfDst;
      if (zz == BROADCAST) {
        if (crcOk) complete = true; else invalid = true;
        break;
      }
      uint8_t a;
      bool ackOwn = false;
      if (!raw(&a, &ackOwn)) break;
      if (a == NAK) {
        nNakRepeat++;
        // a NAK-ed first attempt with a self destination: a strict listener gives the telegram up there, a lenient
        // one takes the repetition; the statement does not decide
        if (firstSelfDst) either = true;
        if (!readMaster(&crcOk)) break;
        // a repetition that is a broadcast (the NAK-ed first attempt was not one, e.g. its destination was corrupted):
        // the statement's grammar has no NAK for broadcasts and does not decide whether this is "that telegram repeated"
        if (tg.master[1] == BROADCAST) { if (crcOk) { complete = true; either = true; } else { invalid = true; } break; }
        zz = tg.master[1];
        if (!raw(&a, &ackOwn)) break;
        if (a != ACK || !crcOk || selfDst) { invalid = true; break; }
      } else if (a != ACK || !crcOk || selfDst) {
        invalid = true;
        break;
      }
      // answered by ebusd itself only when it is the addressed participant (a late arbitration symbol 0x00 of ebusd may
      // coincide with the acknowledge slot of a foreign telegram: for ebusd that telegram is plain received traffic)
      if (ackOwn && (m_ownAddr < 0 || m_answerAny || zz == m_ownAddr || zz == slaveOf(static_cast<uint8_t>(m_ownAddr)))) ownAnswer = true;
      if (isMaster(zz)) { complete = true; break; }
      // slave response
      if (!readSlave(&crcOk)) break;
      if (!raw(&a, nullptr)) break;
      if (a == NAK) {
        nNakRepeat++;
        if (!readSlave(&crcOk)) break;
        if (!raw(&a, nullptr)) break;
        if (a != ACK || !crcOk) { invalid = true; break; }
      } else if (a != ACK || !crcOk) {
        invalid = true;
        break;
      }
      complete = true;
    } while (false);
    if (complete) {
      Expected e;
      e.tg = tg;
      if (tg.master[1] == BROADCAST || isMaster(tg.master[1])) e.tg.slave.clear();
      e.either = either;
      e.endIndex = pos - 1;
      e.own = own;
      e.ownAnswer = ownAnswer;
      out.push_back(e);
    } else if (either && !hitReset) {
      // could not decide: a telegram may have been seen by ebusd through a different timing; record an
      // EITHER wildcard so that a report of whatever follows up to the next SYN is tolerated
      Expected e;
      e.either = true;
      e.endIndex = pos;
      e.own = own;
      e.ownAnswer = false;
      e.tg.master.clear();   // wildcard
      out.push_back(e);
      nInvalid++;
    } else {
      nInvalid++;
    }
    // skip to the next SYN (a SYN that terminated the attempt is the start marker of the next one)
    if (hitSyn) { i = pos; continue; }
    if (hitReset) { i = pos; continue; }
    synced = false;
    i = pos;
  }
  return out;
}

}  // namespace ref

#endif  // VERIF_REF_H_
