// L3 harness internals: the whole daemon except main() on the simulated kernel, bus, sockets and MQTT broker stub.
#ifndef VERIF_H_L3_H_
#define VERIF_H_L3_H_

#include <map>
#include <string>
#include <vector>

#include "harness.h"
#include "history.h"
#include "ref.h"
#include "simbus.h"

namespace l3 {

struct CmdRecord {
  int client = 0;
  int index = 0;
  bool http = false;
  std::string request;       // as written by the simulated client (without line end for TCP)
  std::string response;      // complete response text (TCP: without the trailing blank line; HTTP: status line + headers + body)
  std::string tag;           // oracle tag from the plan
  plan::Line line;           // the plan line (oracle parameters)
  int64_t sentT = -1, doneT = -1;
  bool closedByServer = false;
};

struct Exchange {            // one completed master part of ebusd seen by the simulated bus, and what the slave answered
  int64_t t = 0;
  ref::Bytes master;         // unescaped QQ ZZ PB SB NN D..
  ref::Bytes slave;          // unescaped NN D.. as sent by the simulated slave (empty for BC/MM or no answer)
  bool answered = false;
};

struct Pub { int64_t t = 0; std::string topic, data; };
struct MqttIn { int64_t t = 0; std::string topic, data; plan::Line line; };

struct RunData {
  std::vector<Pub> pubs;                      // what ebusd published to the broker stub
  std::vector<MqttIn> mqttIn;                 // what the broker stub delivered to ebusd
  sim::History hist;
  std::vector<CmdRecord> cmds;
  std::map<int, std::string> rxAll;           // everything a client connection received (incl. unsolicited lines in listen mode)
  std::vector<Exchange> exchanges;
  std::map<std::string, std::string> files;   // html root relative path -> content
  std::string sentinel;                       // content of the file outside the html root
  int64_t endT = 0;
  bool clientsDone = false;
  uint8_t own = 0x31;
};

// oracles per family (oracle_l3.cpp)
void checkL3(const plan::Plan& p, const RunData& rd, hz::RunResult* res);

}  // namespace l3

#endif  // VERIF_H_L3_H_
