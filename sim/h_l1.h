// L1 harness internals shared between the run function, the monitors and the generators.
#ifndef VERIF_H_L1_H_
#define VERIF_H_L1_H_

#include <map>
#include <string>
#include <vector>

#include "harness.h"
#include "history.h"
#include "ref.h"
#include "simbus.h"

namespace l1 {

struct ReqInfo {
  uint64_t id = 0;
  std::string kind;          // sendwait | addwait | fire
  ref::Bytes master;         // unescaped QQ ZZ PB SB NN D..
  int restarts = 0;
  int64_t atMs = 0;
  int64_t submitT = -1, returnT = -1;
  bool fromEmpty = false;    // submitted from within notifyProtocolStatus(ps_empty) on the bus thread
};

struct AnswerInfo {
  int src = -1;              // -1: any source
  uint8_t dst = 0, pb = 0, sb = 0;
  ref::Bytes id;
  ref::Bytes data;           // slave NN D.. or (master destination) the data tail
  bool accepted = false;     // setAnswer returned true
};

struct HandlerCfg {
  uint8_t own = 0x31;
  bool readOnly = false, answer = false, generateSyn = false;
  unsigned lockCount = 0, acquireTimeout = 10, receiveTimeout = 25, acquireRetries = 3, sendRetries = 2, extraLatency = 0;
};

struct StallWin { int64_t from, to; };

// everything the oracles may look at
struct RunData {
  sim::History hist;
  HandlerCfg hc;
  simbus::BusConfig bc;
  std::map<uint64_t, ReqInfo> reqs;
  std::vector<AnswerInfo> answers;
  std::vector<StallWin> stalls;
  int64_t lastFaultT = 0;      // time of the last injected fault of the plan
  int64_t endT = 0;
  int64_t settleNs = 60000000000LL;   // liveness bound used by the harness and the C04 oracle
  bool handlerDeleted = false;
  bool busLiveAtEnd = true;
};

// oracles (mon_*.cpp)
void checkPassive(const RunData& rd, hz::RunResult* res);     // C01
void checkActive(const RunData& rd, hz::RunResult* res);      // C02 C03 C04 C15

}  // namespace l1

#endif  // VERIF_H_L1_H_
