// Reference decoder/encoder for the ebusd enhanced adapter protocol, written from docs/enhanced_proto.md
// (DESIGN appendix C).  Independent of /repo.
#ifndef VERIF_REF_ENH_H_
#define VERIF_REF_ENH_H_

#include <stdint.h>
#include <string>
#include <vector>

namespace refenh {

enum Cmd { REQ_INIT = 0, REQ_SEND = 1, REQ_START = 2, REQ_INFO = 3 };
enum Res { RES_RESETTED = 0, RES_RECEIVED = 1, RES_STARTED = 2, RES_INFO = 3, RES_FAILED = 0xa, RES_ERROR_EBUS = 0xb, RES_ERROR_HOST = 0xc };
enum Arb { ARB_NONE = 0, ARB_WON = 1, ARB_LOST = 2 };

inline void encode(uint8_t cmd, uint8_t data, std::vector<uint8_t>* out) {
  out->push_back(static_cast<uint8_t>(0xC0 | ((cmd & 0x0f) << 2) | (data >> 6)));
  out->push_back(static_cast<uint8_t>(0x80 | (data & 0x3f)));
}

struct Event {
  enum Kind { SYMBOL, DIAG, RESET, INFO } kind = SYMBOL;
  uint8_t value = 0;        // symbol / frame data
  int arb = ARB_NONE;       // SYMBOL: arbitration result attached
  uint8_t cmd = 0;          // frame command (for DIAG of error/unknown frames)
  size_t rawEnd = 0;        // index of the last raw byte of this event
  bool afterDangling = false;  // SYMBOL/first byte that directly follows a dangling first byte: may be lost (EITHER)
  const char* what = "";
};

class Decoder {
 public:
  // feed one raw byte (index = position in the stream); appends the resulting events
  void feed(uint8_t b, size_t index, std::vector<Event>* out) {
    if (!(b & 0x80)) {
      Event e;
      e.rawEnd = index;
      if (m_first >= 0) {
        Event d; d.kind = Event::DIAG; d.rawEnd = index; d.what = "missing byte 2"; out->push_back(d);
        m_first = -1;
        e.afterDangling = true;
      }
      e.kind = Event::SYMBOL;
      e.value = b;
      out->push_back(e);
      return;
    }
    if ((b & 0xC0) == 0x80) {  // second byte
      if (m_first < 0) {
        Event d; d.kind = Event::DIAG; d.rawEnd = index; d.what = "unexpected byte 2"; out->push_back(d);
        return;
      }
      uint8_t cmd = static_cast<uint8_t>((m_first >> 2) & 0x0f);
      uint8_t data = static_cast<uint8_t>(((m_first & 0x03) << 6) | (b & 0x3f));
      m_first = -1;
      Event e;
      e.rawEnd = index;
      e.value = data;
      e.cmd = cmd;
      switch (cmd) {
        case RES_RECEIVED: e.kind = Event::SYMBOL; break;
        case RES_STARTED: e.kind = Event::SYMBOL; e.arb = ARB_WON; break;
        case RES_FAILED: e.kind = Event::SYMBOL; e.arb = ARB_LOST; break;
        case RES_RESETTED: e.kind = Event::RESET; break;
        case RES_INFO: e.kind = Event::INFO; break;
        case RES_ERROR_EBUS: e.kind = Event::DIAG; e.what = "ebus error"; break;
        case RES_ERROR_HOST: e.kind = Event::DIAG; e.what = "host error"; break;
        default: e.kind = Event::DIAG; e.what = "unknown command"; break;
      }
      out->push_back(e);
      return;
    }
    // first byte
    if (m_first >= 0) {
      Event d; d.kind = Event::DIAG; d.rawEnd = index; d.what = "missing byte 2"; out->push_back(d);
      // this first byte directly follows a dangling first byte: it may be lost
      m_first = -1;
      m_lostFirst = true;
      return;
    }
    m_first = b;
  }
  bool pendingFirst() const { return m_first >= 0; }
  void reset() { m_first = -1; }
  bool m_lostFirst = false;

 private:
  int m_first = -1;
};

}  // namespace refenh

#endif  // VERIF_REF_ENH_H_
