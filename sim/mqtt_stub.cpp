#include "mqtt_stub.h"
#include <cstdio>
#include <cstdlib>

#include "ebusd/mqttclient.h"
#include "simkernel.h"

namespace mqttstub {
Broker& broker() { static Broker b; return b; }
}

namespace ebusd {

class SimMqttClient : public MqttClient {
 public:
  SimMqttClient(const mqtt_client_config_t config, MqttClientListener* listener) : MqttClient(config, listener) {
    mqttstub::broker().clients++;
  }
  bool connect(bool& isAsync, bool& connected) override {
    isAsync = false;
    connected = mqttstub::broker().connectOk;
    return connected;
  }
  bool run(bool allowReconnect, bool& connected) override {
    (void)allowReconnect;
    auto& b = mqttstub::broker();
    if (getenv("SIM_DEBUG")) fprintf(stderr, "MQTTRUN %.3f connected=%d incoming=%zu\n", sim::now() / 1e6, connected, b.incoming.size());
    if (!connected) { connected = b.connectOk; return false; }
    // like mosquitto_loop: wait up to one second for traffic
    if (b.incoming.empty()) sim::sleepFor(200 * sim::MS);
    bool any = false;
    while (!b.incoming.empty()) {
      auto m = b.incoming.front();
      b.incoming.pop_front();
      m_listener->notifyMqttTopic(m.first, m.second);
      any = true;
    }
    return any;
  }
  void publishTopic(const string& topic, const string& data, int qos, bool retain = false) override {
    (void)qos;
    mqttstub::broker().published.push_back(mqttstub::Published{sim::now(), topic, data, retain});
    sim::tracef("mqtt.pub", "%s=%s", topic.c_str(), data.c_str());
  }
  void publishEmptyTopic(const string& topic, int qos, bool retain = false) override {
    (void)qos;
    mqttstub::broker().published.push_back(mqttstub::Published{sim::now(), topic, "", retain});
  }
  void subscribeTopic(const string& topic) override { mqttstub::broker().subscriptions.push_back(topic); }
};

MqttClient* MqttClient::create(mqtt_client_config_t config, MqttClientListener* listener) {
  return new SimMqttClient(config, listener);
}

}  // namespace ebusd
