/* config.h used when /verif compiles the sources of /repo for simulation. */
#ifndef VERIF_SIM_CONFIG_H_
#define VERIF_SIM_CONFIG_H_
#define HAVE_CONTRIB
#define HAVE_DIRECT_FLOAT_FORMAT 1
#define HAVE_MQTT
/* no KNX, no SSL, no syslog, no linux/serial.h */
#define HAVE_PPOLL
#define HAVE_PSELECT
#define HAVE_PTHREAD_SETNAME_NP
#define HAVE_CFSETSPEED
#define HAVE_TIME_H
#define HAVE_TIMEGM
#define PACKAGE "ebusd"
#define PACKAGE_BUGREPORT "ebusd@ebusd.eu"
#define PACKAGE_LOGFILE "/nonexistent/ebusd.log"
#define PACKAGE_NAME "ebusd"
#define PACKAGE_PIDFILE "/nonexistent/ebusd.pid"
#define PACKAGE_STRING "ebusd 26.1"
#define PACKAGE_TARNAME "ebusd"
#define PACKAGE_URL "https://github.com/john30/ebusd"
#define PACKAGE_VERSION "26.1"
#define REVISION "verif"
#define SCAN_VERSION "2601"
#define VERSION "26.1"
#define PACKAGE_VERSION_MAJOR 26
#define PACKAGE_VERSION_MINOR 1
#endif
