// L2d harness (C14): the real EnhancedDevice / FileTransport on simulated fds, driven directly.
//   c14e: one adapter byte stream (segments with driver actions in between) is decoded under many partitions into
//         read chunks; results must equal the reference decoder (model based) and each other (metamorphic).
//   c14p: FileTransport alone: seeded feed chunks and consumption patterns; bytes out == bytes in, except that a
//         reported overflow discards exactly the bytes buffered at that moment.
#include <stdio.h>
#include <stdlib.h>

#include <algorithm>

#include "harness.h"
#include "history.h"
#include "ref.h"
#include "ref_enh.h"

#include "lib/ebus/device_trans.h"
#include "lib/ebus/transport.h"
#include "lib/utils/log.h"

using namespace ebusd;  // NOLINT

namespace l2d {

using ref::Bytes;
using sim::MS;
using sim::now;

namespace {

struct Tap {
  size_t* itemCounter = nullptr;       // number of results collected so far (to mark the position of a close)
  long closedAtItems = -1;
  Bytes written;                       // everything the device wrote to the fd
  std::vector<std::string> status;     // DeviceListener/TransportListener status messages
  std::vector<int> dataNotes;          // notifyDeviceData: value | (received ? 0 : 0x100)
  int overflows = 0;
};

class DirectTransport : public FileTransport {
 public:
  explicit DirectTransport(Tap* tap) : FileTransport("/dev/simtty", 0, false), m_tap(tap) {}
  string getTransportInfo() const override { return "sim"; }
  result_t openInternal() override {
    m_stream = sim::streamNew("tty");
    Tap* tap = m_tap;
    m_stream->onWrite = [tap](const uint8_t* p, size_t n) { tap->written.insert(tap->written.end(), p, p + n); };
    int mode = chunkMode;
    if (mode == 1) m_stream->readLimit = [](size_t, size_t) { return static_cast<size_t>(1); };
    else if (mode == 2) m_stream->readLimit = [](size_t avail, size_t) { return static_cast<size_t>(1 + sim::frng().below(static_cast<uint32_t>(avail))); };
    m_fd = m_stream->fd;
    return RESULT_OK;
  }
  sim::Stream* m_stream = nullptr;
  int chunkMode = 0;
 protected:
  void checkDevice() override {}
 private:
  Tap* m_tap;
};

class Listener : public DeviceListener {
 public:
  explicit Listener(Tap* tap) : m_tap(tap) {}
  void notifyDeviceData(const symbol_t* data, size_t len, bool received) override {
    for (size_t i = 0; i < len; i++) m_tap->dataNotes.push_back(data[i] | (received ? 0 : 0x100));
  }
  void notifyDeviceStatus(bool error, const char* message) override {
    std::string s = std::string(error ? "E:" : "I:") + (message ? message : "");
    m_tap->status.push_back(s);
    if (s.find("overflow") != std::string::npos) m_tap->overflows++;
    if (s.find("transport closed") != std::string::npos && m_tap->closedAtItems < 0 && m_tap->itemCounter) m_tap->closedAtItems = static_cast<long>(*m_tap->itemCounter);
  }
 private:
  Tap* m_tap;
};

class TListener : public TransportListener {
 public:
  explicit TListener(Tap* tap) : m_tap(tap) {}
  result_t notifyTransportStatus(bool opened) override { m_tap->status.push_back(opened ? "I:opened" : "I:closed"); return RESULT_OK; }
  void notifyTransportMessage(bool error, const char* message) override {
    std::string s = std::string(error ? "E:" : "I:") + (message ? message : "");
    m_tap->status.push_back(s);
    if (s.find("overflow") != std::string::npos) m_tap->overflows++;
  }
 private:
  Tap* m_tap;
};

struct Segment {
  std::string action;   // none | arb | send | info | advance
  int arg = 0;
  Bytes bytes;
};

struct Item {            // one observable result
  int kind;              // 0 symbol, 1 arbitration event without symbol
  int value;
  int arb;               // 0 none, 1 won, 2 lost, 3 error, 4 timeout
  bool operator==(const Item& o) const { return kind == o.kind && value == o.value && arb == o.arb; }
};

struct VariantResult {
  std::vector<Item> items;
  std::vector<std::string> status;
  Bytes written;
  bool closed = false;
  size_t itemsAtClose = 0;
};

int arbCode(ArbitrationState s) {
  switch (s) {
    case as_won: return 1;
    case as_lost: return 2;
    case as_error: return 3;
    case as_timeout: return 4;
    default: return 0;
  }
}

std::string itemsText(const std::vector<Item>& v) {
  std::string s;
  char buf[32];
  for (auto& i : v) {
    if (i.kind == 0) snprintf(buf, sizeof(buf), "%02x%s ", i.value, i.arb == 1 ? "(won)" : i.arb == 2 ? "(lost)" : i.arb == 3 ? "(err)" : i.arb == 4 ? "(to)" : "");
    else snprintf(buf, sizeof(buf), "[arb%d] ", i.arb);
    s += buf;
  }
  return s;
}

// runs one partition of the stream through a fresh EnhancedDevice
VariantResult runVariant(const std::vector<Segment>& segs, const std::vector<size_t>& cuts, int chunkMode, int features) {
  VariantResult out;
  Tap tap;
  size_t itemCount = 0;
  tap.itemCounter = &itemCount;
  Listener listener(&tap);
  auto* transport = new DirectTransport(&tap);
  transport->chunkMode = chunkMode;
  EnhancedDevice device(transport);
  device.setListener(&listener);
  device.open();
  // the adapter answers the INIT request
  {
    std::vector<uint8_t> hs;
    refenh::encode(refenh::RES_RESETTED, static_cast<uint8_t>(features), &hs);
    sim::streamFeed(transport->m_stream, hs.data(), hs.size());
  }
  auto drain = [&](int quietCalls) {
    int quiet = 0;
    int guard = 0;
    while (quiet < quietCalls && guard++ < 400) {
      symbol_t v = 0;
      ArbitrationState as = as_none;
      itemCount = out.items.size();
      result_t r = device.recv(3, &v, &as);
      if (getenv("SIM_DEBUG2")) fprintf(stderr, "  recv -> %d v=%02x as=%d items=%zu closedAt=%ld\n", r, v, as, out.items.size(), tap.closedAtItems);
      if (r >= RESULT_OK) {
        quiet = 0;
        out.items.push_back(Item{0, v, arbCode(as)});
      } else if (r == RESULT_ERR_TIMEOUT) {
        quiet++;
        int a = arbCode(as);
        if (a) out.items.push_back(Item{1, 0, a});
      } else {
        // device error (transport closed)
        int a = arbCode(as);
        if (a) out.items.push_back(Item{1, 0, a});
        if (!out.closed) { out.closed = true; out.itemsAtClose = out.items.size(); }
        break;
      }
    }
  };
  drain(1);
  size_t pos = 0;  // absolute byte position in the concatenated stream
  size_t cutIdx = 0;
  for (const Segment& sg : segs) {
    if (out.closed) break;
    if (sg.action == "arb") device.startArbitration(static_cast<symbol_t>(sg.arg));
    else if (sg.action == "send") device.send(static_cast<symbol_t>(sg.arg));
    else if (sg.action == "info") device.requestEnhancedInfo(static_cast<symbol_t>(sg.arg), false);
    else if (sg.action == "advance") sim::sleepFor(static_cast<int64_t>(sg.arg) * MS);
    size_t start = pos, end = pos + sg.bytes.size();
    size_t cur = start;
    while (cur < end && !out.closed) {
      while (cutIdx < cuts.size() && cuts[cutIdx] <= cur) cutIdx++;
      size_t next = end;
      if (cutIdx < cuts.size() && cuts[cutIdx] < end) next = cuts[cutIdx];
      if (!transport->m_stream->appClosed) sim::streamFeed(transport->m_stream, sg.bytes.data() + (cur - start), next - cur);
      cur = next;
      drain(1);
    }
    pos = end;
    drain(2);
  }
  out.status = tap.status;
  out.written = tap.written;
  if (!transport->isValid() && !out.closed) { out.closed = true; out.itemsAtClose = out.items.size(); }
  // what the device still decodes from its flushed buffer in the call that closed the transport is not judged
  if (tap.closedAtItems >= 0) { out.closed = true; out.itemsAtClose = std::min(out.itemsAtClose ? out.itemsAtClose : out.items.size(), static_cast<size_t>(tap.closedAtItems)); }
  return out;
}

// reference: symbols with won/lost of the unsplit stream
struct RefItem { int value; int arb; bool maybeLost; };
std::vector<RefItem> referenceDecode(const std::vector<Segment>& segs, bool* sawUnsolicitedReset, size_t* itemsBeforeReset) {
  std::vector<RefItem> out;
  refenh::Decoder dec;
  std::vector<refenh::Event> evs;
  size_t idx = 0;
  int64_t t = 0;          // simulated time offset in ms since the open (only 'advance' actions move it)
  int resets = 1;         // the handshake RESETTED was consumed already
  *sawUnsolicitedReset = false;
  for (const Segment& sg : segs) {
    if (sg.action == "advance") t += sg.arg;
    for (uint8_t b : sg.bytes) {
      evs.clear();
      dec.feed(b, idx++, &evs);
      for (auto& ev : evs) {
        if (ev.kind == refenh::Event::SYMBOL) {
          if (*sawUnsolicitedReset) continue;
          out.push_back(RefItem{ev.value, ev.arb == refenh::ARB_WON ? 1 : ev.arb == refenh::ARB_LOST ? 2 : 0, ev.afterDangling});
        } else if (ev.kind == refenh::Event::RESET) {
          resets++;
          // a RESETTED that is not the answer to an INIT sent less than 3 s ago: the transport is closed, the rest is not decided
          if (t > 2500 && !*sawUnsolicitedReset) { *sawUnsolicitedReset = true; *itemsBeforeReset = out.size(); }
        }
      }
    }
  }
  (void)resets;
  return out;
}

}  // namespace

static void runC14e(const plan::Plan& p, hz::RunResult* res, bool verbose) {
  plan::Line c = p.cfg();
  sim::KConfig kc = hz::kernelConfigFrom(p, verbose);
  sim::setAbortHandler([res](const char* verdict, const std::string& detail) {
    res->violate(std::string(verdict) == "infra" ? "INFRA" : "C20", verdict, verdict, detail);
    res->verdict = verdict;
    hz::finishRun(res);
  });
  sim::kernelInit(kc);
  closeLogFile();
  std::vector<Segment> segs;
  size_t total = 0;
  for (auto& l : p.lines) {
    if (l.kind != "seg") continue;
    Segment s;
    s.action = l.sub;
    s.arg = static_cast<int>(l.num("arg", 0));
    s.bytes = ref::unhex(l.get("raw"));
    total += s.bytes.size();
    segs.push_back(s);
  }
  int features = static_cast<int>(c.num("features", 1));
  // variants: unsplit, byte by byte, every two-way split, seeded k-way splits, kernel level random chunking
  std::vector<std::vector<size_t>> variants;
  std::vector<int> modes;
  variants.push_back({}); modes.push_back(0);
  { std::vector<size_t> all; for (size_t i = 1; i < total; i++) all.push_back(i); variants.push_back(all); modes.push_back(0); }
  for (size_t i = 1; i < total; i++) { variants.push_back({i}); modes.push_back(0); }
  sim::Rng r(kc.seed ^ 0xc14);
  for (int k = 0; k < 4 && total > 2; k++) {
    std::vector<size_t> cuts;
    for (size_t i = 1; i < total; i++) if (r.chance(0.3)) cuts.push_back(i);
    variants.push_back(cuts); modes.push_back(0);
  }
  variants.push_back({}); modes.push_back(1);
  variants.push_back({}); modes.push_back(2);

  bool unsolicitedReset = false;
  size_t refItemsBeforeReset = 0;
  std::vector<RefItem> refItems = referenceDecode(segs, &unsolicitedReset, &refItemsBeforeReset);
  VariantResult base;
  for (size_t v = 0; v < variants.size(); v++) {
    VariantResult vr = runVariant(segs, variants[v], modes[v], features);
    if (getenv("SIM_DEBUG")) {
      std::string st;
      for (auto& x : vr.status) st += x + ";";
      fprintf(stderr, "VARIANT %zu closed=%d at=%zu items=%s status=%s\n", v, vr.closed, vr.itemsAtClose, itemsText(vr.items).c_str(), st.c_str());
    }
    if (v == 0) {
      base = vr;
      // model based: symbols and won/lost results of the unsplit stream
      std::vector<Item> syms;
      for (auto& it : vr.items) if (it.kind == 0) syms.push_back(it);
      // alignment of delivered symbols with the reference; a reference symbol flagged maybeLost may be skipped
      size_t nRef = unsolicitedReset ? refItemsBeforeReset : refItems.size();
      size_t nSym = syms.size();
      std::vector<std::vector<char>> okTab(nSym + 2, std::vector<char>(nRef + 2, 0));
      // okTab[i][j]: syms[i..] can be matched with refItems[j..nRef)
      for (size_t jj = nRef + 1; jj-- > 0;) {
        for (size_t ii = nSym + 1; ii-- > 0;) {
          char v = 0;
          if (jj >= nRef) v = unsolicitedReset ? 1 : (ii >= nSym);
          else {
            const RefItem& e = refItems[jj];
            if (ii < nSym && syms[ii].value == e.value && ((syms[ii].arb == 1 || syms[ii].arb == 2) ? syms[ii].arb : 0) == e.arb && okTab[ii + 1][jj + 1]) v = 1;
            if (!v && e.maybeLost && okTab[ii][jj + 1]) v = 1;
          }
          okTab[ii][jj] = v;
        }
      }
      bool bad = !okTab[0][0];
      std::string why;
      size_t i = 0;
      if (bad) {
        // find the first position where the greedy walk fails, for the message
        size_t j = 0;
        while (j < nRef) {
          const RefItem& e = refItems[j];
          if (i < nSym && syms[i].value == e.value && ((syms[i].arb == 1 || syms[i].arb == 2) ? syms[i].arb : 0) == e.arb) { i++; j++; continue; }
          if (e.maybeLost) { j++; continue; }
          char buf[200];
          snprintf(buf, sizeof(buf), "reference symbol #%zu is %02x arb=%d, device delivered %s", j, e.value, e.arb,
                   i < nSym ? (std::to_string(syms[i].value) + "/arb" + std::to_string(syms[i].arb)).c_str() : "nothing");
          why = buf;
          break;
        }
        if (why.empty()) why = "device delivered more symbols than the stream contains";
      }
      if (bad) {
        std::string kind = i < syms.size() ? "altered-or-invented-symbol" : "lost-symbol";
        res->violate("C14", "decode-mismatch", kind, why + " | unsplit result: " + itemsText(vr.items));
      }
      continue;
    }
    // metamorphic: same items and same diagnostics as the unsplit run (up to a close of the transport)
    std::vector<Item> a = base.items, b = vr.items;
    if (base.closed || vr.closed) {
      // symbols decoded before the reset must agree; what follows a close is not decided
      if (base.closed && a.size() > base.itemsAtClose) a.resize(base.itemsAtClose);
      if (vr.closed && b.size() > vr.itemsAtClose) b.resize(vr.itemsAtClose);

    }
    // compared: the symbols with their won/lost results, and separately the order of arbitration error/timeout events
    // (to which result of recv() such an event is attached is not part of the statement)
    auto symsOf = [](const std::vector<Item>& v) { std::vector<std::pair<int, int>> o; for (auto& it : v) if (it.kind == 0) o.push_back(std::make_pair(it.value, it.arb == 1 || it.arb == 2 ? it.arb : 0)); return o; };
    auto evsOf = [](const std::vector<Item>& v) { std::vector<int> o; for (auto& it : v) if (it.arb == 3 || it.arb == 4) o.push_back(it.arb); return o; };
    auto symA = symsOf(a), symB = symsOf(b);
    if (base.closed || vr.closed) { size_t n = std::min(symA.size(), symB.size()); symA.resize(n); symB.resize(n); }
    bool symsEq = symA == symB;
    // error/timeout events may be overwritten by a following won/lost result within one call: counted, not compared
    bool evsEq = true;
    if (evsOf(a) != evsOf(b)) res->counters["c14.arb_error_event_order_differs"]++;
    if (!symsEq || !evsEq) {
      char buf[120];
      std::string cutsText;
      for (size_t cidx : variants[v]) cutsText += std::to_string(cidx) + ",";
      snprintf(buf, sizeof(buf), "chunking #%zu (cuts %s mode %d) differs from the unsplit stream: ", v, cutsText.substr(0, 40).c_str(), modes[v]);
      auto sa = symsOf(a), sb = symsOf(b);
      std::string kind = symsEq ? "arbitration-event-order" : sb.size() < sa.size() ? "symbol-lost" : sb.size() > sa.size() ? "symbol-invented" : "symbol-altered";
      res->violate("C14", "chunking-dependent-decode", kind, std::string(buf) + itemsText(b) + " vs " + itemsText(a));
    }
    if (vr.status != base.status && !(base.closed || vr.closed)) {
      std::string sa, sb;
      for (auto& s : base.status) sa += s + ";";
      for (auto& s : vr.status) sb += s + ";";
      res->violate("C14", "chunking-dependent-diagnostics", "status-sequence", "unsplit: " + sa + " | chunked: " + sb);
    }
    if (vr.written != base.written && !(base.closed || vr.closed)) {
      res->violate("C14", "chunking-dependent-requests", "written-bytes", "bytes written to the adapter differ between chunkings: " + ref::hex(vr.written) + " vs " + ref::hex(base.written));
    }
  }
  // encoding: everything written consists of well formed two byte sequences; every send/arbitration request of the
  // driver appears exactly as defined, in order; nothing else than INIT, INFO and the cancel sequence is written
  {
    bool ok = base.written.size() % 2 == 0;
    std::vector<std::pair<int, int>> cmds;
    for (size_t k = 0; ok && k + 1 < base.written.size(); k += 2) {
      uint8_t b1 = base.written[k], b2 = base.written[k + 1];
      if ((b1 & 0xC0) != 0xC0 || (b2 & 0xC0) != 0x80) { ok = false; break; }
      cmds.push_back(std::make_pair((b1 >> 2) & 0xf, ((b1 & 3) << 6) | (b2 & 0x3f)));
    }
    std::string why = ok ? "" : "malformed sequence";
    size_t k = 0;
    if (ok && (cmds.empty() || cmds[0] != std::make_pair(static_cast<int>(refenh::REQ_INIT), 1))) { ok = false; why = "no INIT request after open"; }
    k = 1;
    for (const Segment& sg : segs) {
      if (!ok) break;
      // skip what the device sends on its own: INFO requests and cancel sequences
      auto skippable = [&](size_t q) { return cmds[q].first == refenh::REQ_INFO || (cmds[q].first == refenh::REQ_START && cmds[q].second == ref::SYN); };
      if (sg.action == "send") {
        while (k < cmds.size() && skippable(k)) k++;
        if (base.closed && k >= cmds.size()) break;
        if (k < cmds.size() && cmds[k] == std::make_pair(static_cast<int>(refenh::REQ_SEND), sg.arg)) k++;
        else { ok = false; why = "send(" + std::to_string(sg.arg) + ") not written as defined"; }
      } else if (sg.action == "arb" && sg.arg != ref::SYN) {
        size_t q = k;
        while (q < cmds.size() && skippable(q)) q++;
        if (q < cmds.size() && cmds[q] == std::make_pair(static_cast<int>(refenh::REQ_START), sg.arg)) k = q + 1;   // else: refused (arbitration running / closed)
      } else if (sg.action == "info") {
        // optional (refused without the info feature or while another request is running)
      }
    }
    for (size_t q = k; ok && q < cmds.size(); q++) {
      if (cmds[q].first == refenh::REQ_SEND) { ok = false; why = "a SEND sequence that no send() asked for"; }
      if (cmds[q].first == refenh::REQ_START && cmds[q].second != ref::SYN) { ok = false; why = "a START sequence that no startArbitration() asked for"; }
    }
    if (!ok) res->violate("C14", "request-encoding", "two-byte-sequence", why + "; written: " + ref::hex(base.written));
  }
  res->counters["c14.variants"] += variants.size();
  res->counters["c14.stream_bytes"] += total;
  res->counters["c14.ref_symbols"] += refItems.size();
  res->counters["c14.unsolicited_reset"] += unsolicitedReset ? 1 : 0;
  res->counters["c14.transport_closed"] += base.closed ? 1 : 0;
  for (auto& it : base.items) if (it.arb) res->counters[std::string("c14.arb_result_") + std::to_string(it.arb)]++;
  res->counters["c14.diag_notifications"] += base.status.size();
  res->nontrivial = total > 1;
  char buf[160];
  snprintf(buf, sizeof(buf), "family=c14e segments=%zu bytes=%zu variants=%zu symbols=%zu", segs.size(), total, variants.size(), refItems.size());
  res->sample = buf;
  hz::finishRun(res);
}

// ---------------------------------------------------------------------------------------------
// plain transport: feed / consumption patterns
// ---------------------------------------------------------------------------------------------
static void runC14p(const plan::Plan& p, hz::RunResult* res, bool verbose) {
  sim::KConfig kc = hz::kernelConfigFrom(p, verbose);
  sim::setAbortHandler([res](const char* verdict, const std::string& detail) {
    res->violate(std::string(verdict) == "infra" ? "INFRA" : "C20", verdict, verdict, detail);
    res->verdict = verdict;
    hz::finishRun(res);
  });
  sim::kernelInit(kc);
  closeLogFile();
  Tap tap;
  TListener tl(&tap);
  DirectTransport transport(&tap);
  transport.setListener(&tl);
  transport.open();
  Bytes input, output;
  std::deque<uint8_t> unconsumed;   // reference view of the transport buffer + kernel queue (in order)
  size_t bufferedRef = 0;           // bytes the transport holds (handed out by read() and not consumed)
  int overflowSeen = 0;
  uint64_t discarded = 0;
  for (auto& l : p.lines) {
    if (l.kind != "op") continue;
    if (l.sub == "feed") {
      Bytes b = ref::unhex(l.get("raw"));
      input.insert(input.end(), b.begin(), b.end());
      sim::streamFeed(transport.m_stream, b.data(), b.size());
    } else if (l.sub == "read") {
      const uint8_t* data = nullptr;
      size_t len = 0;
      unsigned timeout = static_cast<unsigned>(l.num("timeout", 0));
      int before = tap.overflows;
      result_t r = transport.read(timeout, &data, &len);
      if (tap.overflows != before) {
        // a reported overflow discards exactly the bytes buffered at that moment
        overflowSeen++;
        for (size_t i = 0; i < bufferedRef && !unconsumed.empty(); i++) { unconsumed.pop_front(); discarded++; }
        bufferedRef = 0;
      }
      if (r == RESULT_OK) {
        // the data handed out must be a prefix of what is pending, in order
        if (len > unconsumed.size()) {
          res->violate("C14", "transport-data", "more-than-fed", "read() returned more bytes than were fed");
          break;
        }
        bool same = true;
        for (size_t i = 0; i < len; i++) if (data[i] != unconsumed[i]) same = false;
        if (!same) {
          Bytes got(data, data + len);
          res->violate("C14", "transport-data", "altered-or-reordered", "read() returned " + ref::hex(got));
          break;
        }
        bufferedRef = len;
        size_t k = static_cast<size_t>(l.num("consume", 1));
        if (k > len) k = len;
        for (size_t i = 0; i < k; i++) { output.push_back(unconsumed.front()); unconsumed.pop_front(); }
        transport.readConsumed(static_cast<size_t>(l.num("consume", 1)));
        bufferedRef = len - k;
      }
    } else if (l.sub == "sync") {
      // account for newly fed bytes in the reference queue
    }
    // keep the reference queue in sync with everything fed so far
    while (output.size() + unconsumed.size() + discarded < input.size()) unconsumed.push_back(input[output.size() + unconsumed.size() + discarded]);
  }
  // drain
  for (int i = 0; i < 2000; i++) {
    while (output.size() + unconsumed.size() + discarded < input.size()) unconsumed.push_back(input[output.size() + unconsumed.size() + discarded]);
    const uint8_t* data = nullptr;
    size_t len = 0;
    int before = tap.overflows;
    result_t r = transport.read(0, &data, &len);
    if (r != RESULT_OK) r = transport.read(2, &data, &len);
    if (tap.overflows != before) {
      overflowSeen++;
      for (size_t k = 0; k < bufferedRef && !unconsumed.empty(); k++) { unconsumed.pop_front(); discarded++; }
      bufferedRef = 0;
    }
    if (r != RESULT_OK) break;
    bool same = len <= unconsumed.size();
    for (size_t k = 0; same && k < len; k++) if (data[k] != unconsumed[k]) same = false;
    if (!same) { res->violate("C14", "transport-data", "altered-or-reordered", "read() returned other bytes than fed (drain)"); break; }
    for (size_t k = 0; k < len; k++) { output.push_back(unconsumed.front()); unconsumed.pop_front(); }
    transport.readConsumed(len);
    bufferedRef = 0;
  }
  if (res->violations.empty() && !unconsumed.empty()) {
    res->violate("C14", "transport-data", "bytes-lost", std::to_string(unconsumed.size()) + " fed byte(s) were never handed out");
  }
  res->counters["c14p.bytes"] += input.size();
  res->counters["c14p.overflows"] += static_cast<uint64_t>(overflowSeen);
  res->counters["c14p.discarded"] += discarded;
  res->nontrivial = input.size() > 4;
  char buf[120];
  snprintf(buf, sizeof(buf), "family=c14p bytes=%zu overflows=%d discarded=%llu", input.size(), overflowSeen, static_cast<unsigned long long>(discarded));
  res->sample = buf;
  hz::finishRun(res);
}

static void runL2d(const plan::Plan& p, hz::RunResult* res, bool verbose) {
  if (p.cfg().get("family") == "c14p") runC14p(p, res, verbose);
  else runC14e(p, res, verbose);
}

// ---------------------------------------------------------------------------------------------
// generators
// ---------------------------------------------------------------------------------------------
static void addFrame(sim::Rng& r, Bytes* out, bool allowMalformed) {
  int k = static_cast<int>(r.below(100));
  auto pair = [&](int cmd, int data) { refenh::encode(static_cast<uint8_t>(cmd), static_cast<uint8_t>(data), out); };
  static const uint8_t vals[] = {0xaa, 0xa9, 0x00, 0x01, 0xff, 0x80, 0x7f, 0x31, 0x10, 0xfe};
  int v = r.chance(0.5) ? vals[r.below(10)] : static_cast<int>(r.below(256));
  if (k < 30) out->push_back(static_cast<uint8_t>(r.below(128)));                  // short form
  else if (k < 55) pair(refenh::RES_RECEIVED, v);
  else if (k < 62) pair(refenh::RES_RECEIVED, 0xaa);
  else if (k < 68) pair(refenh::RES_STARTED, r.chance(0.7) ? 0x31 : v);
  else if (k < 74) pair(refenh::RES_FAILED, v);
  else if (k < 78) pair(refenh::RES_INFO, static_cast<int>(r.below(20)));
  else if (k < 80) {
    // a complete info response: announced length (also longer than any defined info) and about that many data frames
    static const int lens[] = {1, 2, 8, 9, 15, 16, 17, 18, 25, 40, 200, 255};
    int len = lens[r.below(12)];
    pair(refenh::RES_INFO, len);
    int n = len + static_cast<int>(r.below(5)) - 2;
    for (int i = 0; i < n; i++) pair(refenh::RES_INFO, static_cast<int>(r.below(256)));
  }
  else if (k < 83) pair(refenh::RES_ERROR_EBUS, static_cast<int>(r.below(3)));
  else if (k < 85) pair(refenh::RES_ERROR_HOST, static_cast<int>(r.below(3)));
  else if (k < 88) pair(refenh::RES_RESETTED, static_cast<int>(r.below(2)));
  else if (!allowMalformed) out->push_back(static_cast<uint8_t>(r.below(128)));
  else if (k < 91) { static const int unk[] = {4, 5, 6, 7, 8, 9, 0xd, 0xe, 0xf}; pair(unk[r.below(9)], v); }
  else if (k < 94) out->push_back(static_cast<uint8_t>(0x80 | r.below(64)));      // stray second byte
  else if (k < 97) out->push_back(static_cast<uint8_t>(0xC0 | r.below(64)));      // dangling first byte
  else { out->push_back(static_cast<uint8_t>(0xC0 | r.below(64))); out->push_back(static_cast<uint8_t>(0xC0 | r.below(64))); }
}

static plan::Plan genC14e(uint64_t seed, const std::string& tier) {
  sim::Rng r(seed);
  plan::Plan p;
  char buf[300];
  snprintf(buf, sizeof(buf), "cfg harness=l2d family=c14e seed=%llu features=%d callcost=%d", static_cast<unsigned long long>(seed), r.chance(0.8) ? 1 : 0, 500 + static_cast<int>(r.below(3000)));
  p.add(buf);
  bool malformed = r.chance(0.5);
  int nseg = 1 + static_cast<int>(r.below(tier == "thorough" ? 7 : 5));
  int elapsed = 0;
  for (int s = 0; s < nseg; s++) {
    int k = static_cast<int>(r.below(10));
    std::string action = "none";
    int arg = 0;
    if (k < 3) { action = "arb"; arg = r.chance(0.85) ? 0x31 : ref::SYN; }
    else if (k < 5) { action = "send"; arg = r.chance(0.5) ? 0xaa : static_cast<int>(r.below(256)); }
    else if (k < 6) { action = "info"; arg = static_cast<int>(r.below(8)); }
    else if (k < 8) {
      // the reset window of the device is compared in whole seconds: cumulated advances stay clearly below 1.5 s or jump beyond 4.5 s
      action = "advance";
      if (elapsed >= 4500) { static const int adv[] = {0, 400, 1000, 3000}; arg = adv[r.below(4)]; }
      else if (r.chance(0.4)) arg = 6000;
      else { static const int adv[] = {0, 100, 300}; arg = adv[r.below(3)]; if (elapsed + arg > 1200) arg = 0; }
      elapsed += arg;
    }
    Bytes raw;
    int nf = 1 + static_cast<int>(r.below(8));
    for (int f = 0; f < nf; f++) addFrame(r, &raw, malformed);
    snprintf(buf, sizeof(buf), "seg %s arg=%d raw=%s", action.c_str(), arg, ref::hex(raw).c_str());
    p.add(buf);
  }
  return p;
}

static plan::Plan genC14p(uint64_t seed, const std::string& tier) {
  sim::Rng r(seed);
  plan::Plan p;
  char buf[300];
  snprintf(buf, sizeof(buf), "cfg harness=l2d family=c14p seed=%llu callcost=%d", static_cast<unsigned long long>(seed), 500 + static_cast<int>(r.below(3000)));
  p.add(buf);
  int nops = 10 + static_cast<int>(r.below(tier == "thorough" ? 120 : 60));
  bool bursty = r.chance(0.4);
  uint8_t counter = 0;
  for (int i = 0; i < nops; i++) {
    if (r.chance(0.45)) {
      int n = bursty && r.chance(0.3) ? 20 + static_cast<int>(r.below(30)) : 1 + static_cast<int>(r.below(6));
      Bytes b;
      for (int k = 0; k < n; k++) b.push_back(counter++);
      p.add("op feed raw=" + ref::hex(b));
    } else {
      static const int tos[] = {0, 0, 1, 5};
      snprintf(buf, sizeof(buf), "op read timeout=%d consume=%d", tos[r.below(4)], r.chance(0.6) ? 1 : static_cast<int>(r.below(34)));
      p.add(buf);
    }
  }
  return p;
}

struct Reg {
  Reg() {
    hz::registerHarness("l2d", runL2d);
    hz::registerFamily(hz::Family{"c14e", "l2d", genC14e, "enhanced adapter stream decoded under every two-way split and seeded k-way splits"});
    hz::registerFamily(hz::Family{"c14p", "l2d", genC14p, "plain transport: seeded feed chunks and consumption patterns incl. overflow"});
  }
} g_reg;

}  // namespace l2d
