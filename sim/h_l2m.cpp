// L2m harness (C13, C17): the real MessageMap / Message / Condition / poll queue under the simulated clock, driven by
// two simulated threads (bus-thread role and main-loop role) whose interleaving is decided by the scheduler.
#include <stdio.h>
#include <stdlib.h>

#include <algorithm>
#include <set>

#include "harness.h"
#include "ref.h"

#include "lib/ebus/data.h"
#include "lib/ebus/message.h"
#include "lib/utils/log.h"

using namespace ebusd;  // NOLINT

namespace l2m {

using ref::Bytes;
using sim::MS;
using sim::now;

namespace {

class PlainResolver : public Resolver {
 public:
  DataFieldTemplates* getTemplates(const string& filename) override { (void)filename; return &m_templates; }
  result_t loadDefinitionsFromConfigPath(FileReader* reader, const string& filename, map<string, string>* defaults,
                                         string* errorDescription, bool replace = false) override {
    (void)reader; (void)filename; (void)defaults; (void)errorDescription; (void)replace;
    return RESULT_ERR_NOTFOUND;
  }
 private:
  DataFieldTemplates m_templates;
};

struct Op {
  size_t index = 0;
  std::string kind;
  char role = 'm';
  plan::Line l;
  uint64_t startSeq = 0, endSeq = 0;
  // results
  int avail = -1, foundByName = -1, foundByMaster = -1;
  std::string polled;
  int result = 0;
};

uint64_t g_seq = 0;

std::string decodeCsv(const std::string& s) {
  // plan tokens cannot contain blanks: '~' stands for a blank inside CSV text
  std::string o = s;
  for (char& c : o) if (c == '~') c = ' ';
  return o;
}

void fill(const Bytes& b, SymbolString* s) {
  s->clear();
  for (uint8_t x : b) s->push_back(x);
}

}  // namespace

// ---------------------------------------------------------------------------------------------
// reference condition model (from the condition text in the plan, independent of /repo)
// ---------------------------------------------------------------------------------------------
struct RefCond {
  std::string name;
  std::string refMsg;       // referenced message name
  int field = 0;            // index of the referenced field, -1 if it does not exist / wrong kind
  bool hasValues = false;
  bool isString = false;
  std::vector<std::pair<uint64_t, uint64_t>> ranges;
  std::vector<std::string> strings;
  bool resolvable = true;
};

static void parseRanges(const std::string& list, RefCond* c) {
  size_t i = 0;
  while (i <= list.size()) {
    size_t j = list.find(';', i);
    if (j == std::string::npos) j = list.size();
    std::string t = list.substr(i, j - i);
    if (!t.empty()) {
      if (t[0] == '\'') {
        c->isString = true;
        if (t.size() >= 2 && t[t.size() - 1] == '\'') t = t.substr(1, t.size() - 2);
        c->strings.push_back(t);
      } else if (t[0] == '<' || t[0] == '>') {
        bool upto = t[0] == '<';
        bool incl = t.size() > 1 && t[1] == '=';
        uint64_t v = strtoull(t.c_str() + (incl ? 2 : 1), nullptr, 10);
        if (upto) c->ranges.push_back(std::make_pair(0, incl ? v : v - 1));
        else c->ranges.push_back(std::make_pair(incl ? v : v + 1, 0xffffffffULL));
      } else {
        size_t d = t.find('-');
        if (d != std::string::npos && d > 0) c->ranges.push_back(std::make_pair(strtoull(t.substr(0, d).c_str(), nullptr, 10), strtoull(t.c_str() + d + 1, nullptr, 10)));
        else { uint64_t v = strtoull(t.c_str(), nullptr, 10); c->ranges.push_back(std::make_pair(v, v)); }
      }
    }
    i = j + 1;
  }
}

struct RefMsgDef {
  std::string name;
  std::vector<std::string> fieldNames;
  std::vector<bool> fieldNumeric;   // UCH numeric, STR string
  std::vector<int> fieldLen;
  bool masterPart = false;   // fields are in the master data (broadcast / master-master message)
  size_t idLen = 0;
};

static void runL2m(const plan::Plan& p, hz::RunResult* res, bool verbose) {
  plan::Line c = p.cfg();
  sim::KConfig kc = hz::kernelConfigFrom(p, verbose);
  sim::setAbortHandler([res](const char* verdict, const std::string& detail) {
    res->violate(std::string(verdict) == "infra" ? "INFRA" : "C20", verdict, verdict, detail);
    res->verdict = verdict;
    hz::finishRun(res);
  });
  sim::kernelInit(kc);
  closeLogFile();
  std::string family = c.get("family");
  PlainResolver resolver;
  auto* map = new MessageMap(false, "", true);
  map->setResolver(&resolver);
  // initial definitions
  std::string csv;
  for (auto& l : p.lines) if (l.kind == "def") csv += decodeCsv(l.get("l")) + "\n";
  std::string err;
  {
    std::istringstream is("#\n" + csv);   // the first line would be taken as column header otherwise
    result_t r = map->readFromStream(&is, "sim.csv", 1700000000, false, nullptr, &err);
    if (r != RESULT_OK) {
      res->violate("INFRA", "infra", "definitions rejected", err + " / " + getResultCode(r));
      hz::finishRun(res);
    }
  }
  {
    // an optional second file: conditions are scoped by file, the same names may mean something else there
    std::string csv2;
    for (auto& l : p.lines) if (l.kind == "def2") csv2 += decodeCsv(l.get("l")) + "\n";
    if (!csv2.empty()) {
      std::istringstream is("#\n" + csv2);
      result_t r = map->readFromStream(&is, "sim2.csv", 1700000000, false, nullptr, &err);
      if (r != RESULT_OK) {
        res->violate("INFRA", "infra", "definitions of the second file rejected", err + " / " + getResultCode(r));
        hz::finishRun(res);
      }
    }
  }
  // reference definitions (given explicitly in the plan, not derived from the CSV by repo code)
  std::map<std::string, RefMsgDef> refMsgs;
  std::map<std::string, RefCond> refConds;
  std::map<std::string, std::vector<std::string>> guards;   // guarded message -> condition names (all must hold)
  std::map<std::string, std::vector<std::string>> guardValues;   // on-the-fly derived value list per condition ("" = none)
  std::map<std::string, Bytes> msgMaster;   // message name -> master telegram for lookups
  for (auto& l : p.lines) {
    if (l.kind == "refmsg") {
      RefMsgDef d;
      d.name = l.get("name");
      std::string f = l.get("fields");   // e.g. f1:n1,f2:s3
      size_t i = 0;
      while (i < f.size()) {
        size_t j = f.find(',', i);
        if (j == std::string::npos) j = f.size();
        std::string t = f.substr(i, j - i);
        size_t col = t.find(':');
        d.fieldNames.push_back(t.substr(0, col));
        d.fieldNumeric.push_back(t[col + 1] == 'n');
        d.fieldLen.push_back(atoi(t.c_str() + col + 2));
        i = j + 1;
      }
      d.masterPart = l.get("part", "s") == "m";
      d.idLen = static_cast<size_t>(l.num("idlen", 0));
      refMsgs[d.name] = d;
      msgMaster[d.name] = ref::unhex(l.get("master"));
    } else if (l.kind == "refcond") {
      RefCond rc;
      rc.name = l.get("name");
      rc.refMsg = l.get("msg");
      std::string fld = l.get("field");
      std::string vals = l.get("values");
      for (char& ch : vals) if (ch == '~') ch = ' ';
      rc.hasValues = !vals.empty();
      if (rc.hasValues) parseRanges(vals, &rc);
      auto it = refMsgs.find(rc.refMsg);
      if (it == refMsgs.end()) { rc.resolvable = false; rc.field = -1; }
      else {
        const RefMsgDef& d = it->second;
        rc.field = -1;
        for (size_t k = 0; k < d.fieldNames.size(); k++) {
          // the named field, or if unnamed the first field, of the required kind
          if ((fld.empty() || d.fieldNames[k] == fld) && (!rc.hasValues || d.fieldNumeric[k] == !rc.isString)) { rc.field = static_cast<int>(k); break; }
        }
        if (rc.hasValues && rc.field < 0) rc.resolvable = false;
        if (!rc.hasValues) rc.field = 0;
      }
      refConds[(l.num("file", 1) == 2 ? "2:" : "") + rc.name] = rc;
    } else if (l.kind == "refguard") {
      std::string conds = l.get("conds");
      std::vector<std::string> cs, vs;
      size_t i = 0;
      while (i < conds.size()) {
        size_t j = conds.find(',', i);
        if (j == std::string::npos) j = conds.size();
        std::string t = conds.substr(i, j - i);
        size_t e = t.find_first_of("=<>");
        const std::string fp = l.num("file", 1) == 2 ? "2:" : "";
        if (e == std::string::npos) { cs.push_back(fp + t); vs.push_back(""); }
        else { cs.push_back(fp + t.substr(0, e)); std::string v = t.substr(e); if (v[0] == '=') v.erase(0, 1); for (char& ch : v) if (ch == '~') ch = ' '; vs.push_back(v); }
        i = j + 1;
      }
      guards[l.get("name")] = cs;
      guardValues[l.get("name")] = vs;
      msgMaster[l.get("name")] = ref::unhex(l.get("master"));
    }
  }
  bool allResolvable = true;
  for (auto& rc : refConds) if (!rc.second.resolvable) allResolvable = false;

  // resolve
  std::string rerr;
  result_t rr = map->resolveConditions(false, &rerr);
  if (family == "c13") {
    bool got = rr == RESULT_OK;
    if (got != allResolvable) {
      std::string which;
      for (auto& rc : refConds) if (!rc.second.resolvable) which += rc.first + " ";
      res->violate("C13", "resolution-mismatch", allResolvable ? "resolvable-condition-rejected" : "unresolvable-condition-accepted",
                   std::string("resolveConditions returned ") + getResultCode(rr) + " (" + rerr + "), reference: " + (allResolvable ? "all resolvable" : "not resolvable: " + which));
    }
  }

  // ops
  std::vector<Op> ops;
  for (auto& l : p.lines) {
    if (l.kind != "op") continue;
    Op o;
    o.index = ops.size();
    o.kind = l.sub;
    o.role = l.get("t", "m")[0];
    o.l = l;
    ops.push_back(o);
  }
  std::vector<Op>* pops = &ops;
  std::map<std::string, Bytes>* pMaster = &msgMaster;
  const std::string* pcsv = &csv;
  auto exec = [map, pops, pMaster, pcsv](char role) {
    for (Op& o : *pops) {
      if (o.role != role) continue;
      // ops of one role are sequential; ordering against the other role is up to the scheduler, except that an op
      // waits for the op given in 'after' (keeps plans meaningful)
      if (o.l.has("after")) {
        size_t dep = static_cast<size_t>(o.l.num("after"));
        std::vector<Op>* po = pops;
        if (dep < po->size() && (*po)[dep].endSeq == 0) {
          std::function<bool()> pred = [po, dep]() { return (*po)[dep].endSeq != 0; };
          sim::blockUntil(pred, -1, "op-dependency");
        }
      }
      sim::yieldPoint("op");
      o.startSeq = ++g_seq;
      const std::string name = o.l.get("msg");
      if (o.kind == "advance") {
        sim::sleepFor(o.l.num("ms", 0) * MS);
      } else if (o.kind == "store") {
        Message* m = map->find("cir", name, "", false);
        if (!m) m = map->find("cir", name, "", false, true);
        if (m) {
          MasterSymbolString master;
          fill(o.l.has("master") ? ref::unhex(o.l.get("master")) : (*pMaster)[name], &master);
          SlaveSymbolString slave;   // stays empty for broadcast and master-master telegrams, as in the protocol handler
          if (!o.l.get("slave").empty()) fill(ref::unhex(o.l.get("slave")), &slave);
          map->invalidateCache(m);   // as BusHandler does in front of every store
          o.result = m->storeLastData(master, slave);
        } else {
          o.result = -999;
        }
      } else if (o.kind == "query") {
        // availability as seen through the public API: by name and by telegram
        Message* byName = map->find("cir", name, "", false);
        o.foundByName = byName != nullptr;
        MasterSymbolString master;
        fill((*pMaster)[name], &master);
        Message* byMaster = map->find(master, false, true, false, false);
        o.foundByMaster = byMaster != nullptr && byMaster->getName() == name;
        o.avail = o.foundByName;
      } else if (o.kind == "poll") {
        Message* m = map->getNextPoll();
        o.polled = m ? m->getName() : "";
      } else if (o.kind == "setprio") {
        Message* m = map->find("cir", name, "", false);
        if (m) {
          if (m->setPollPriority(static_cast<size_t>(o.l.num("p", 1)))) map->addPollMessage(o.l.num("front", 0) != 0, m);
          o.result = 1;
        }
      } else if (o.kind == "reload") {
        // what the daemon does on "reload": drop everything, read the configuration again
        map->clear();
        std::istringstream is("#\n" + *pcsv);
        std::string e2;
        o.result = map->readFromStream(&is, "sim.csv", 1700000002, false, nullptr, &e2);
        if (o.result == RESULT_OK) o.result = map->resolveConditions(false, &e2);
      } else if (o.kind == "othermap") {
        // a second, short lived map (the main loop keeps one for "read -def"/"write -def" and clears it for every such command)
        MessageMap other(false, "", false);
        std::istringstream is("#\nr5,tmp,x,,,08,b509,0d7f00,,,UCH\n");
        std::string e2;
        other.readFromStream(&is, "temporary", 1700000003, false, nullptr, &e2);
        other.clear();
        o.result = 1;
      } else if (o.kind == "load") {
        std::istringstream is("#\n" + decodeCsv(o.l.get("l")) + "\n");
        std::string e2;
        o.result = map->readFromStream(&is, "late.csv", 1700000001, false, nullptr, &e2);
      }
      o.endSeq = ++g_seq;
      if (getenv("SIM_DEBUG")) fprintf(stderr, "OP %zu %s role=%c seq=%llu..%llu t=%.3f result=%d avail=%d byMaster=%d polled=%s | %s\n", o.index, o.kind.c_str(), o.role,
          static_cast<unsigned long long>(o.startSeq), static_cast<unsigned long long>(o.endSeq), sim::now() / 1e6, o.result, o.avail, o.foundByMaster, o.polled.c_str(), o.l.str().c_str());
    }
  };
  int tb = sim::threadSpawn("busrole", [exec]() { exec('b'); });
  int tm = sim::threadSpawn("mainrole", [exec]() { exec('m'); });
  sim::threadJoin(tb);
  sim::threadJoin(tm);

  if (family == "c13") {
    // reference evaluation: last stored value of each referenced message, in the total order of op completion
    uint64_t nQueries = 0, nAvailTrue = 0, nOverlap = 0, nSameSecond = 0;
    for (const Op& q : ops) {
      if (q.kind != "query") continue;
      nQueries++;
      auto git = guards.find(q.l.get("msg"));
      if (git == guards.end()) continue;
      bool expectAll = true, undecided = false;
      for (size_t ci = 0; ci < git->second.size(); ci++) {
        const RefCond& base = refConds[git->second[ci]];
        RefCond rc = base;
        const std::string& derivedValues = guardValues[q.l.get("msg")][ci];
        if (!derivedValues.empty()) { rc.ranges.clear(); rc.strings.clear(); rc.isString = false; rc.hasValues = true; parseRanges(derivedValues, &rc); }
        if (!base.resolvable) { expectAll = false; continue; }
        // stores to the referenced message: definitely before / overlapping
        const Op* last = nullptr;
        bool overlap = false;
        for (const Op& s : ops) {
          if (s.kind != "store" || s.l.get("msg") != rc.refMsg || s.startSeq == 0) continue;
          if (s.endSeq < q.startSeq) { if (!last || s.endSeq > last->endSeq) last = &s; }
          else if (s.startSeq < q.endSeq) overlap = true;
        }
        if (overlap) { undecided = true; nOverlap++; }
        bool holds = false;
        if (last) {
          if (!rc.hasValues) holds = true;
          else {
            const RefMsgDef& d = refMsgs[rc.refMsg];
            // the data part the fields live in: slave answer (after NN), or for broadcast/master-master messages the master data behind the ID
            Bytes slave = d.masterPart ? ref::unhex(last->l.get("master")) : ref::unhex(last->l.get("slave"));
            size_t off = d.masterPart ? 5 + d.idLen : 1;
            for (int k = 0; k < rc.field; k++) off += static_cast<size_t>(d.fieldLen[static_cast<size_t>(k)]);
            size_t len = static_cast<size_t>(d.fieldLen[static_cast<size_t>(rc.field)]);
            if (off + len <= slave.size()) {
              if (!rc.isString) {
                uint64_t v = slave[off];
                if (v != 0xff) for (auto& r : rc.ranges) if (r.first <= v && v <= r.second) holds = true;
              } else {
                std::string sv;
                for (size_t k = 0; k < len; k++) sv += static_cast<char>(slave[off + k]);
                for (auto& st : rc.strings) if (st == sv) holds = true;
              }
            }
          }
        }
        if (!holds) expectAll = false;
      }
      if (undecided) continue;
      if (expectAll) nAvailTrue++;
      int got = q.avail;
      if (got != (expectAll ? 1 : 0)) {
        // classify: stale verdict after a second change within the same second?
        std::string sig = expectAll ? "unavailable-although-condition-holds" : "available-although-condition-fails";
        char buf[300];
        snprintf(buf, sizeof(buf), "query #%zu of %s: find() says %s, reference predicate on the last stored value says %s", q.index, q.l.get("msg").c_str(),
                 got ? "available" : "not available", expectAll ? "available" : "not available");
        res->violate("C13", "availability-mismatch", sig, buf);
      }
      if (q.foundByMaster != q.foundByName) {
        char buf[200];
        snprintf(buf, sizeof(buf), "query #%zu of %s: lookup by name and lookup by telegram disagree (%d/%d)", q.index, q.l.get("msg").c_str(), q.foundByName, q.foundByMaster);
        res->violate("C13", "lookup-disagreement", "name-vs-telegram", buf);
      }
    }
    (void)nSameSecond;
    res->counters["c13.queries"] += nQueries;
    res->counters["c13.queries_expected_available"] += nAvailTrue;
    res->counters["c13.queries_overlapping_store"] += nOverlap;
    res->counters["c13.conditions"] += refConds.size();
    res->counters["c13.unresolvable_cases"] += allResolvable ? 0 : 1;
    res->nontrivial = nQueries > 0;
  } else {
    // C17: fairness of the poll sequence against the stride scheduling bounds
    std::map<std::string, int> prio;       // current priority per message (reference bookkeeping from the plan)
    std::set<std::string> condRef;
    for (auto& l : p.lines) if (l.kind == "refpoll") { prio[l.get("name")] = static_cast<int>(l.num("p")); if (l.num("cond", 0)) condRef.insert(l.get("name")); }
    // windows without perturbation
    std::vector<std::string> window;
    std::map<std::string, int> winPrio = prio;
    uint64_t nPolls = 0, nWindows = 0;
    auto judge = [&](const std::vector<std::string>& w, const std::map<std::string, int>& pr, size_t settle) {
      if (w.size() <= settle + 50) return;
      nWindows++;
      std::map<std::string, uint64_t> cnt;
      std::map<std::string, size_t> lastSeen;
      std::map<std::string, size_t> maxGap;
      for (size_t i = settle; i < w.size(); i++) {
        const std::string& n = w[i];
        cnt[n]++;
        for (auto& e : pr) {
          if (e.second <= 0) continue;
          size_t ls = lastSeen.count(e.first) ? lastSeen[e.first] : settle;
          size_t gap = i - ls;
          if (e.first == n) { lastSeen[e.first] = i; }
          if (gap > maxGap[e.first]) maxGap[e.first] = gap;
        }
      }
      // enrolled = positive priority
      // a message referenced by a condition is polled with a priority the statement does not fix: if any is present,
      // only the universal starvation bound is applied to this window
      bool hasCondRef = false;
      for (auto& a : pr) if (condRef.count(a.first)) hasCondRef = true;
      for (auto& e : cnt) if (condRef.count(e.first)) hasCondRef = true;
      if (hasCondRef) return;
      for (auto& a : pr) {
        if (a.second <= 0) continue;
        size_t bound = 1;
        for (auto& b : pr) if (b.first != a.first && b.second > 0) bound += static_cast<size_t>(36 / b.second);
        bound += 2;
        if (maxGap[a.first] > bound) {
          char buf[240];
          snprintf(buf, sizeof(buf), "message %s (priority %d) was not selected for %zu selections (bound %zu) in a window of %zu selections without perturbation", a.first.c_str(),
                   a.second, maxGap[a.first], bound, w.size() - settle);
          res->violate("C17", "starvation", "gap-exceeds-bound", buf);
        }
        for (auto& b : pr) {
          if (b.second <= 0 || b.first <= a.first) continue;
          int64_t d = static_cast<int64_t>(cnt[a.first]) * a.second - static_cast<int64_t>(cnt[b.first]) * b.second;
          if (d < 0) d = -d;
          if (d > 36 + 2 * std::max(a.second, b.second)) {
            char buf[240];
            snprintf(buf, sizeof(buf), "selection counts %s:%llu (p=%d) and %s:%llu (p=%d) are not proportional to 1/p (|n_i*p_i - n_j*p_j| = %lld > 36+) over %zu selections",
                     a.first.c_str(), static_cast<unsigned long long>(cnt[a.first]), a.second, b.first.c_str(), static_cast<unsigned long long>(cnt[b.first]), b.second,
                     static_cast<long long>(d), w.size() - settle);
            res->violate("C17", "disproportion", a.second == b.second ? "equal-priority" : "different-priority", buf);
          }
        }
      }
      for (auto& e : cnt) {
        if (!pr.count(e.first) || pr.at(e.first) <= 0) {
          res->violate("C17", "unexpected-poll", "not-enrolled", "message " + e.first + " was selected although it has no poll priority");
        }
      }
    };
    // universal bound, valid under any sequence of priority changes: a message that stays enrolled (priority > 0, or
    // referenced by a condition) is selected again within 40 x (number of enrolled messages) selections
    {
      std::map<std::string, int> pr = prio;
      std::map<std::string, size_t> since;      // selections since the last selection (or enrolment) per enrolled message
      for (auto& l : p.lines) if (l.kind == "refpoll" && l.num("cond", 0)) pr[l.get("name")] = std::max(pr[l.get("name")], 1);
      for (auto& e : pr) if (e.second > 0) since[e.first] = 0;
      for (const Op& o : ops) {
        if (o.kind == "poll" && !o.polled.empty()) {
          size_t enrolled = since.size();
          for (auto& sn : since) {
            if (sn.first == o.polled) { sn.second = 0; continue; }
            sn.second++;
            if (sn.second > 40 * std::max<size_t>(enrolled, 1) + 20) {
              char buf[200];
              snprintf(buf, sizeof(buf), "message %s stayed enrolled but was not selected for %zu selections (%zu messages enrolled)", sn.first.c_str(), sn.second, enrolled);
              res->violate("C17", "starvation", "enrolled-but-never-selected", buf);
              sn.second = 0;
            }
          }
        } else if (o.kind == "setprio") {
          int np = static_cast<int>(o.l.num("p"));
          std::string n = o.l.get("msg");
          if (np > 0 && !since.count(n)) since[n] = 0;
          if (np <= 0) since.erase(n);
        } else if (o.kind == "load" && o.l.has("name") && o.l.num("p") > 0) {
          since[o.l.get("name")] = 0;
        } else if (o.kind == "reload") {
          // back to the priorities of the configuration; late loaded definitions are gone
          since.clear();
          std::map<std::string, int> pr0 = prio;
          for (auto& l : p.lines) if (l.kind == "refpoll" && l.num("cond", 0)) pr0[l.get("name")] = std::max(pr0[l.get("name")], 1);
          for (auto& e : pr0) if (e.second > 0) since[e.first] = 0;
        }
      }
    }
    size_t settleLen = 0;
    for (const Op& o : ops) {
      if (o.kind == "poll") {
        nPolls++;
        if (!o.polled.empty()) window.push_back(o.polled);
      } else if (o.kind == "setprio" || o.kind == "load" || o.kind == "reload") {
        // perturbation: judge the window so far, then start a new one with a settling phase
        judge(window, winPrio, settleLen);
        window.clear();
        if (o.kind == "reload") winPrio = prio;
        else if (o.kind == "setprio") winPrio[o.l.get("msg")] = static_cast<int>(o.l.num("p"));
        else if (o.l.has("name")) winPrio[o.l.get("name")] = static_cast<int>(o.l.num("p"));
        size_t s = 1;
        for (auto& b : winPrio) if (b.second > 0) s += static_cast<size_t>(36 / b.second);
        settleLen = s + 2;
      }
    }
    judge(window, winPrio, settleLen);
    res->counters["c17.polls"] += nPolls;
    res->counters["c17.windows_judged"] += nWindows;
    res->counters["c17.messages"] += prio.size();
    res->nontrivial = nPolls > 50;
  }
  char buf[160];
  snprintf(buf, sizeof(buf), "family=%s ops=%zu defs=%zu", family.c_str(), ops.size(), refMsgs.size() + guards.size());
  res->sample = buf;
  hz::finishRun(res);
}

// ---------------------------------------------------------------------------------------------
// generators
// ---------------------------------------------------------------------------------------------
static std::string hx(const Bytes& b) { return ref::hex(b); }

static plan::Plan genC13(uint64_t seed, const std::string& tier) {
  sim::Rng r(seed);
  plan::Plan p;
  char buf[600];
  snprintf(buf, sizeof(buf), "cfg harness=l2m family=c13 seed=%llu policy=%d switchp=0.3 callcost=%d", static_cast<unsigned long long>(seed), static_cast<int>(r.below(4)),
           1000 + static_cast<int>(r.below(5000)));
  p.add(buf);
  int nref = 1 + static_cast<int>(r.below(2));
  struct RefM { std::string name; std::vector<std::string> fn; std::vector<bool> num; std::vector<int> len; Bytes master; bool bc = false; };
  std::vector<RefM> refs;
  for (int i = 0; i < nref; i++) {
    RefM m;
    m.name = "ref" + std::to_string(i);
    int nf = 1 + static_cast<int>(r.below(3));
    std::string csv = "r,cir," + m.name + ",,,08,b509,0d0" + std::to_string(i + 1) + "00";
    std::string fields;
    for (int k = 0; k < nf; k++) {
      bool num = r.chance(0.7);
      std::string fname = "f" + std::to_string(k);
      m.fn.push_back(fname);
      m.num.push_back(num);
      m.len.push_back(num ? 1 : 3);
      csv += "," + fname + ",," + (num ? "UCH" : "STR:3") + ",,,";
      fields += (k ? "," : "") + fname + ":" + (num ? "n1" : "s3");
    }
    m.master = {0x31, 0x08, 0xb5, 0x09, 0x03, 0x0d, static_cast<uint8_t>(i + 1), 0x00};
    if (r.chance(0.3)) {
      // a broadcast (or master-master) message seen passively: its fields are master data, the slave part stays empty
      m.bc = true;
      bool mm = r.chance(0.3);
      csv = std::string("u,cir,") + m.name + ",,," + (mm ? "10" : "fe") + ",b516,0" + std::to_string(i + 1);
      for (int k = 0; k < nf; k++) csv += "," + m.fn[static_cast<size_t>(k)] + ",m," + (m.num[static_cast<size_t>(k)] ? "UCH" : "STR:3") + ",,,";
      int total = 0;
      for (int l : m.len) total += l;
      m.master = {0x03, static_cast<uint8_t>(mm ? 0x10 : 0xfe), 0xb5, 0x16, static_cast<uint8_t>(1 + total), static_cast<uint8_t>(i + 1)};
      p.add("def l=" + csv);
      p.add("refmsg name=" + m.name + " fields=" + fields + " master=" + hx(m.master) + " part=m idlen=1");
      refs.push_back(m);
      continue;
    }
    p.add("def l=" + csv);
    p.add("refmsg name=" + m.name + " fields=" + fields + " master=" + hx(m.master));
    refs.push_back(m);
  }
  // conditions
  int ncond = 1 + static_cast<int>(r.below(3));
  bool wantBad = r.chance(0.15);
  std::vector<std::string> condNames, condMsg, condField;
  std::vector<bool> condNumeric;
  std::vector<int> condKind;   // 0: seen, 1: numeric values, 2: string values
  for (int i = 0; i < ncond; i++) {
    const RefM& m = refs[r.below(static_cast<uint32_t>(refs.size()))];
    std::string name = "c" + std::to_string(i);
    int kind = static_cast<int>(r.below(10));
    std::string field, values;
    size_t fi = r.below(static_cast<uint32_t>(m.fn.size()));
    bool named = r.chance(0.7);
    if (!named && m.fn.size() > 1) {
      bool anyNum = false;
      for (bool q : m.num) if (q) anyNum = true;
      if (!anyNum) named = true;   // see below: no unnamed string condition on a message with several fields
    }
    if (named) field = m.fn[fi];
    else fi = 0;
    bool numeric = true;
    if (kind < 1) {
      values = "";   // seen at least once
    } else {
      // values of the kind of some field of the message (for an unnamed field: the first field of that kind must exist)
      // (an unnamed string condition on a message with several fields is not generated: whether "a first field"
      //  means the first string field or the text of the whole message is not decided by the statement)
      bool wantNum = named ? m.num[fi] : (m.fn.size() > 1 ? true : m.num[0]);
      if (!named) { bool any = false; for (bool q : m.num) if (q == wantNum) any = true; if (!any) wantNum = m.num[0]; }
      numeric = wantNum;
      if (wantNum) {
        // (value lists are sets: entries in any order, also ranges and comparisons mixed)
        static const char* lists[] = {"4;6;8-10", "<5", ">200", "<=7", ">=250", "0", "1-3;100-120", "254", "17", "8-10;6;4", "100-120;1-3", ">=250;7;1-3", "8;4", "200;<5", "17;3;9"};
        values = lists[r.below(15)];
      } else {
        static const char* lists[] = {"'abc'", "'abc';'xyz'", "'a~b'", "'on~'"};
        values = lists[r.below(4)];
      }
    }
    if (wantBad && i == 0) {
      // an unresolvable condition: unknown field name, wrong kind, or unknown message
      int bk = static_cast<int>(r.below(4));
      bool allNum = true, allStr = true;
      for (bool q : m.num) { if (q) allStr = false; else allNum = false; }
      if (bk == 3 && (allNum || allStr)) {
        // no field name, and the message has no field of the kind the values ask for
        field = "";
        values = allNum ? "'abc'" : "5";
        numeric = !allNum;
        p.add("def l=*[" + name + "],cir," + m.name + ",,,," + values);
        p.add("refcond name=" + name + " msg=" + m.name + " field= values=" + values);
        condNames.push_back(name);
        condNumeric.push_back(numeric);
        continue;
      }
      if (bk == 3) bk = 0;
      if (bk == 0) { field = "nofield"; if (values.empty()) values = "1"; }
      else if (bk == 1 && !values.empty()) {
        // require the other kind than the named field has
        field = m.fn[fi];
        values = m.num[fi] ? "'abc'" : "5";
        numeric = !m.num[fi];
      } else { field = ""; }
      std::string msgName = bk == 2 ? "nomsg" : m.name;
      p.add("def l=*[" + name + "],cir," + msgName + ",," + field + ",," + values);
      p.add("refcond name=" + name + " msg=" + msgName + " field=" + field + " values=" + values);
    } else {
      p.add("def l=*[" + name + "],cir," + m.name + ",," + field + ",," + values);
      p.add("refcond name=" + name + " msg=" + m.name + " field=" + field + " values=" + values);
    }
    condNames.push_back(name);
    condNumeric.push_back(numeric && !values.empty());
    condMsg.push_back(m.name);
    condField.push_back(field);
    condKind.push_back(values.empty() ? 0 : numeric ? 1 : 2);
  }
  // a second file that defines conditions of the same names with other values, and guards that combine them in the same way
  bool twoFiles = !wantBad && r.chance(0.3);
  if (twoFiles) {
    for (size_t i = 0; i < condNames.size(); i++) {
      std::string values;
      static const char* nl[] = {"4;6;8-10", "<5", ">200", "<=7", ">=250", "0", "1-3;100-120", "254", "8;4"};
      static const char* sl[] = {"'abc'", "'abc';'xyz'", "'a~b'", "'on~'"};
      if (condKind[i] == 1) values = nl[r.below(9)]; else if (condKind[i] == 2) values = sl[r.below(4)];
      p.add("def2 l=*[" + condNames[i] + "],cir," + condMsg[i] + ",," + condField[i] + ",," + values);
      p.add("refcond file=2 name=" + condNames[i] + " msg=" + condMsg[i] + " field=" + condField[i] + " values=" + values);
    }
  }
  // guarded messages
  int ng = 1 + static_cast<int>(r.below(3));
  std::vector<std::string> guarded;
  for (int i = 0; i < ng; i++) {
    std::string name = "g" + std::to_string(i);
    std::string pre, conds;
    int nc = r.chance(twoFiles ? 0.6 : 0.25) && condNames.size() > 1 ? 2 : 1;
    std::set<size_t> used;
    for (int k = 0; k < nc; k++) {
      size_t ci = r.below(static_cast<uint32_t>(condNames.size()));
      if (used.count(ci)) continue;
      used.insert(ci);
      std::string t = condNames[ci];
      if (condNumeric[ci] && r.chance(0.25)) {
        static const char* der[] = {"=5", "=1;2;3", "<9", ">=100", "=250-255", "=3;2;1", "=250-255;5"};
        t += der[r.below(7)];
      }
      pre += "[" + t + "]";
      conds += (conds.empty() ? "" : ",") + t;
    }
    Bytes master = {0x31, 0x08, 0xb5, 0x09, 0x03, 0x0d, 0x40, static_cast<uint8_t>(i)};
    p.add("def l=" + pre + "r,cir," + name + ",,,08,b509,0d40" + hx(Bytes{static_cast<uint8_t>(i)}) + ",,,UCH");
    p.add("refguard name=" + name + " conds=" + conds + " master=" + hx(master));
    guarded.push_back(name);
    if (twoFiles) {
      // the same combination of the same names in the other file
      std::string name2 = "h" + std::to_string(i);
      Bytes master2 = {0x31, 0x08, 0xb5, 0x09, 0x03, 0x0d, 0x41, static_cast<uint8_t>(i)};
      p.add("def2 l=" + pre + "r,cir," + name2 + ",,,08,b509,0d41" + hx(Bytes{static_cast<uint8_t>(i)}) + ",,,UCH");
      p.add("refguard file=2 name=" + name2 + " conds=" + conds + " master=" + hx(master2));
      guarded.push_back(name2);
    }
  }
  // history: stores (bus role), clock steps, queries (main role)
  int nops = tier == "thorough" ? 20 + static_cast<int>(r.below(80)) : 10 + static_cast<int>(r.below(40));
  bool sequential = r.chance(0.6);
  int lastOp = -1;
  for (int i = 0; i < nops; i++) {
    int k = static_cast<int>(r.below(10));
    std::string line;
    if (k < 4) {
      const RefM& m = refs[r.below(static_cast<uint32_t>(refs.size()))];
      Bytes slave;
      int total = 0;
      for (int l : m.len) total += l;
      slave.push_back(static_cast<uint8_t>(total));
      for (size_t f = 0; f < m.fn.size(); f++) {
        if (m.num[f]) {
          static const uint8_t vals[] = {0, 1, 3, 4, 5, 6, 7, 8, 9, 10, 17, 100, 110, 200, 201, 250, 254};   // 0xff is the replacement (null) value of UCH
          slave.push_back(vals[r.below(17)]);
        } else {
          static const char* sv[] = {"abc", "xyz", "a b", "on ", "off"};
          const char* s = sv[r.below(5)];
          for (int q = 0; q < 3; q++) slave.push_back(static_cast<uint8_t>(s[q]));
        }
      }
      if (m.bc) {
        Bytes master = m.master;
        master.insert(master.end(), slave.begin() + 1, slave.end());
        line = "op store t=b msg=" + m.name + " master=" + hx(master) + " slave=";
      } else {
        line = "op store t=b msg=" + m.name + " slave=" + hx(slave);
      }
    } else if (k < 6) {
      static const int steps[] = {0, 1, 400, 1000, 61000};
      line = "op advance t=" + std::string(r.chance(0.5) ? "b" : "m") + " ms=" + std::to_string(steps[r.below(5)]);
    } else {
      line = "op query t=m msg=" + guarded[r.below(static_cast<uint32_t>(guarded.size()))];
    }
    if (sequential && lastOp >= 0) line += " after=" + std::to_string(lastOp);
    p.add(line);
    lastOp = i;
  }
  return p;
}

static plan::Plan genC17(uint64_t seed, const std::string& tier) {
  sim::Rng r(seed);
  plan::Plan p;
  char buf[300];
  snprintf(buf, sizeof(buf), "cfg harness=l2m family=c17 seed=%llu policy=%d switchp=0.3 callcost=%d", static_cast<unsigned long long>(seed), static_cast<int>(r.below(4)),
           1000 + static_cast<int>(r.below(5000)));
  p.add(buf);
  int n = 2 + static_cast<int>(r.below(tier == "thorough" ? 11 : 7));
  std::vector<std::string> names;
  for (int i = 0; i < n; i++) {
    std::string name = "m" + std::to_string(i);
    int prio = r.chance(0.15) ? 0 : 1 + static_cast<int>(r.below(9));
    snprintf(buf, sizeof(buf), "def l=r%s,cir,%s,,,08,b509,0d50%02x,,,UCH", prio ? std::to_string(prio).c_str() : "", name.c_str(), i);
    p.add(buf);
    p.add("refpoll name=" + name + " p=" + std::to_string(prio));
    names.push_back(name);
  }
  if (r.chance(0.3)) {
    // two definitions whose IDs (more than 4 bytes) fold to the same map key, as b524 020000003400 / b524 030000003500 of a real configuration
    int pa = 1 + static_cast<int>(r.below(9)), pb = 1 + static_cast<int>(r.below(9));
    snprintf(buf, sizeof(buf), "def l=r%d,cir,fold0,,,08,b524,020000003400,,,UCH", pa); p.add(buf);
    p.add("refpoll name=fold0 p=" + std::to_string(pa));
    snprintf(buf, sizeof(buf), "def l=r%d,cir,fold1,,,08,b524,030000003500,,,UCH", pb); p.add(buf);
    p.add("refpoll name=fold1 p=" + std::to_string(pb));
    names.push_back("fold0");
    names.push_back("fold1");
  }
  if (r.chance(0.25)) {
    // a message without own priority that is referenced by a condition must get polled as well
    p.add("def l=r,cir,cref,,,08,b509,0d5100,,,UCH");
    p.add("refpoll name=cref p=0 cond=1");
    p.add("def l=*[cc],cir,cref,,,,1");
    p.add("def l=[cc]r,cir,cguarded,,,08,b509,0d5101,,,UCH");
    p.add("refpoll name=cguarded p=0");
  }
  int phases = 1 + static_cast<int>(r.below(4));
  int opIdx = 0;
  int lateCount = 0;
  bool toggling = r.chance(0.3);
  std::string toggleMsg = names[r.below(static_cast<uint32_t>(names.size()))];
  int toggleEvery = 1 + static_cast<int>(r.below(12));
  int toggleA = 1 + static_cast<int>(r.below(9)), toggleB = 1 + static_cast<int>(r.below(9));
  for (int ph = 0; ph < phases; ph++) {
    int polls = 150 + static_cast<int>(r.below(tier == "thorough" ? 1500 : 500));
    for (int k = 0; k < polls; k++) {
      p.add("op poll t=b" + std::string(opIdx ? " after=" + std::to_string(opIdx - 1) : ""));
      opIdx++;
      if (toggling && (k % toggleEvery) == toggleEvery - 1) {
        // two clients asking for different priorities of the same message again and again
        snprintf(buf, sizeof(buf), "op setprio t=m msg=%s p=%d front=0 after=%d", toggleMsg.c_str(), ((k / toggleEvery) & 1) ? toggleA : toggleB, opIdx - 1);
        p.add(buf);
        opIdx++;
      }
      if (r.chance(0.05)) {
        static const int steps[] = {0, 1000, 3000};
        p.add("op advance t=b ms=" + std::to_string(steps[r.below(3)]) + " after=" + std::to_string(opIdx - 1));
        opIdx++;
      }
    }
    if (ph + 1 < phases) {
      int kind = static_cast<int>(r.below(13));
      if (kind >= 10) {
        // reload of the configuration after a long polling history, then a message gets enabled
        p.add("op reload t=m after=" + std::to_string(opIdx - 1));
        opIdx++;
        snprintf(buf, sizeof(buf), "op setprio t=m msg=%s p=%d front=0 after=%d", names[r.below(static_cast<uint32_t>(names.size()))].c_str(), 1 + static_cast<int>(r.below(9)), opIdx - 1);
        p.add(buf);
      } else if (kind < 6) {
        if (r.chance(0.3)) { p.add("op othermap t=m after=" + std::to_string(opIdx - 1)); opIdx++; }
        snprintf(buf, sizeof(buf), "op setprio t=m msg=%s p=%d front=%d after=%d", names[r.below(static_cast<uint32_t>(names.size()))].c_str(), 1 + static_cast<int>(r.below(9)),
                 r.chance(0.3) ? 1 : 0, opIdx - 1);
        p.add(buf);
      } else {
        // a definition loaded late (the normal case after a scan)
        std::string name = "late" + std::to_string(lateCount);
        int prio = 1 + static_cast<int>(r.below(9));
        snprintf(buf, sizeof(buf), "op load t=m name=%s p=%d after=%d l=r%d,cir,%s,,,08,b509,0d60%02x,,,UCH", name.c_str(), prio, opIdx - 1, prio, name.c_str(), lateCount);
        p.add(buf);
        lateCount++;
      }
      opIdx++;
    }
  }
  return p;
}

struct Reg {
  Reg() {
    hz::registerHarness("l2m", runL2m);
    hz::registerFamily(hz::Family{"c13", "l2m", genC13, "conditions: update histories with clock steps and availability queries from two roles"});
    hz::registerFamily(hz::Family{"c17", "l2m", genC17, "poll queue: selection sequences with priority changes and late loaded definitions"});
  }
} g_reg;

}  // namespace l2m
