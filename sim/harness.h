// Common harness interface: a family generates a plan from a seed; a harness executes a plan and reports.
#ifndef VERIF_HARNESS_H_
#define VERIF_HARNESS_H_

#include <stdint.h>
#include <map>
#include <string>
#include <vector>

#include "plan.h"
#include "simkernel.h"

namespace hz {

struct Violation {
  std::string prop;    // property id, e.g. C01
  std::string cls;     // violation class, e.g. missing-report
  std::string sig;     // canonical signature of what fails (never a seed)
  std::string detail;  // free text for humans
};

struct RunResult {
  std::string verdict = "ok";   // ok | violation | hang | deadlock | step-budget | time-budget | infra
  std::vector<Violation> violations;
  std::map<std::string, uint64_t> counters;
  uint64_t hash = 0, steps = 0, switches = 0, decisions = 0;
  int64_t simNs = 0;
  bool nontrivial = false;
  std::string sample;
  std::vector<int> schedule;
  void violate(const std::string& prop, const std::string& cls, const std::string& sig, const std::string& detail) {
    for (auto& v : violations) if (v.prop == prop && v.cls == cls && v.sig == sig) return;
    violations.push_back(Violation{prop, cls, sig, detail});
    verdict = "violation";
  }
};

struct Family {
  const char* name;
  const char* harness;                                   // l1 | l2d | l2m | l3
  plan::Plan (*generate)(uint64_t seed, const std::string& tier);
  const char* doc;
  bool enumerating = false;   // the seed handed to generate() is (hash(base seed, family) << 32) | run index
};

// each harness file registers its families and its run function
typedef void (*RunFn)(const plan::Plan&, RunResult*, bool verbose);
void registerFamily(const Family& f);
void registerHarness(const char* name, RunFn fn);
const Family* findFamily(const std::string& name);
RunFn findHarness(const std::string& name);
std::vector<const Family*> allFamilies();

// kernel config from the merged cfg line of a plan
sim::KConfig kernelConfigFrom(const plan::Plan& p, bool verbose);

// emit the result to fd (child -> worker protocol) and _exit
void emitResult(const RunResult& r, int fd);
extern int g_resultFd;
extern bool g_leakCheck;   // set by a harness after a complete orderly shutdown when the plan asks for a leak check (cfg lsan=1)
void finishRun(RunResult* r);   // fills hash/steps from the kernel, emits, _exit(0)

}  // namespace hz

#endif  // VERIF_HARNESS_H_
