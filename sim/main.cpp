// simrun: generator, single-run executor and fork-per-run worker of the deterministic simulation.
#include <errno.h>
#include <fcntl.h>
#include <poll.h>
#include <sched.h>
#include <signal.h>
#include <stdio.h>
#include <stdlib.h>
#include <string.h>
#include <sys/wait.h>
#include <time.h>
#include <unistd.h>

#include <fstream>
#include <set>
#include <sstream>

#if defined(__SANITIZE_ADDRESS__)
#include <sanitizer/lsan_interface.h>
#endif
#include "harness.h"

extern "C" {
__attribute__((used, visibility("default"))) const char* __asan_default_options() {
  // leak detection is armed but never runs by itself: a sampled run asks for one recoverable check after its orderly shutdown
  return "exitcode=77:detect_leaks=1:leak_check_at_exit=0:abort_on_error=0:allocator_may_return_null=1:detect_stack_use_after_return=0";
}
__attribute__((used, visibility("default"))) const char* __ubsan_default_options() {
  return "halt_on_error=1:exitcode=78:print_stacktrace=0";
}
}

namespace hz {

static std::vector<Family>& families() { static std::vector<Family> v; return v; }
static std::map<std::string, RunFn>& harnesses() { static std::map<std::string, RunFn> m; return m; }
void registerFamily(const Family& f) { families().push_back(f); }
void registerHarness(const char* name, RunFn fn) { harnesses()[name] = fn; }
const Family* findFamily(const std::string& name) {
  for (auto& f : families()) if (name == f.name) return &f;
  return nullptr;
}
RunFn findHarness(const std::string& name) {
  auto it = harnesses().find(name);
  return it == harnesses().end() ? nullptr : it->second;
}
std::vector<const Family*> allFamilies() {
  std::vector<const Family*> v;
  for (auto& f : families()) v.push_back(&f);
  return v;
}

sim::KConfig kernelConfigFrom(const plan::Plan& p, bool verbose) {
  plan::Line c = p.cfg();
  sim::KConfig k;
  k.seed = static_cast<uint64_t>(strtoull(c.get("seed", "1").c_str(), nullptr, 0));
  k.policy = static_cast<int>(c.num("policy", 0));
  k.switchP = c.real("switchp", 0.1);
  k.pctDepth = static_cast<int>(c.num("pctdepth", 2));
  k.pctSteps = static_cast<uint64_t>(c.num("pctsteps", 2000));
  k.starveName = c.get("starve", "");
  k.callCost = c.num("callcost", 2000);
  k.spuriousP = c.real("spurious", 0);
  k.errnoP = c.real("errnop", 0);
  k.maxSteps = static_cast<uint64_t>(c.num("maxsteps", 3000000));
  k.maxTime = c.num("maxtime_s", 7200) * sim::SEC;
  k.epoch = c.num("epoch", 1700000000);
  k.verbose = verbose;
  for (auto& l : p.lines) {
    if (l.kind != "sched") continue;
    k.replaySchedule = true;
    std::string s = l.get("d");
    size_t i = 0;
    while (i < s.size()) {
      size_t j = s.find(',', i);
      if (j == std::string::npos) j = s.size();
      std::string tok = s.substr(i, j - i);
      // run length form v*n
      size_t star = tok.find('*');
      int v = atoi(tok.c_str());
      int n = star == std::string::npos ? 1 : atoi(tok.c_str() + star + 1);
      for (int q = 0; q < n; q++) k.schedule.push_back(v);
      i = j + 1;
    }
  }
  return k;
}

int g_resultFd = 1;

static void writeAll(int fd, const std::string& s) {
  size_t off = 0;
  while (off < s.size()) {
    ssize_t n = ::write(fd, s.data() + off, s.size() - off);
    if (n <= 0) { if (errno == EINTR) continue; break; }
    off += static_cast<size_t>(n);
  }
}

static std::string oneLine(std::string s) {
  for (char& c : s) if (c == '\n' || c == '\t' || c == '\r') c = ' ';
  return s;
}

void emitResult(const RunResult& r, int fd) {
  std::ostringstream o;
  o << "verdict " << r.verdict << "\n";
  o << "hash " << std::hex << r.hash << std::dec << "\n";
  o << "steps " << r.steps << "\n";
  o << "switches " << r.switches << "\n";
  o << "decisions " << r.decisions << "\n";
  o << "simns " << r.simNs << "\n";
  o << "nontrivial " << (r.nontrivial ? 1 : 0) << "\n";
  for (auto& v : r.violations) o << "viol " << v.prop << "\t" << v.cls << "\t" << oneLine(v.sig) << "\t" << oneLine(v.detail) << "\n";
  for (auto& c : r.counters) o << "ctr " << c.first << " " << c.second << "\n";
  if (!r.sample.empty()) o << "sample " << oneLine(r.sample) << "\n";
  if (!r.schedule.empty()) {
    o << "sched d=";
    size_t i = 0;
    bool first = true;
    while (i < r.schedule.size()) {
      size_t j = i;
      while (j < r.schedule.size() && r.schedule[j] == r.schedule[i]) j++;
      if (!first) o << ",";
      first = false;
      o << r.schedule[i];
      if (j - i > 1) o << "*" << (j - i);
      i = j;
    }
    o << "\n";
  }
  o << "end\n";
  writeAll(fd, o.str());
}

bool g_leakCheck = false;

void finishRun(RunResult* r) {
#if defined(__SANITIZE_ADDRESS__)
  if (g_leakCheck && r->verdict == "ok") {
    // everything the daemon allocated must be freed or still reachable after the orderly shutdown
    // the report goes to a temporary file: only lost *request* objects are what C20 forbids by its text; other lost
    // objects are counted and their allocation site is kept for the notes
    fflush(stderr);
    FILE* tf = tmpfile();
    int saved = dup(2);
    if (tf && saved >= 0) {
      dup2(fileno(tf), 2);
      int leaks = __lsan_do_recoverable_leak_check();
      dup2(saved, 2);
      close(saved);
      if (leaks != 0) {
        std::string rep;
        char buf[4096];
        rewind(tf);
        size_t n;
        while ((n = fread(buf, 1, sizeof(buf), tf)) > 0 && rep.size() < 200000) rep.append(buf, n);
        // a lost request object: a direct leak whose innermost allocation frames are where ebusd creates requests
        bool request = false;
        for (size_t at = rep.find("Direct leak"); at != std::string::npos; at = rep.find("Direct leak", at + 1)) {
          size_t f1 = rep.find("#1 ", at), f4 = rep.find("#4 ", at);
          if (f1 == std::string::npos) continue;
          std::string frames = rep.substr(f1, (f4 == std::string::npos ? rep.size() : rep.find('\n', f4)) - f1);
          static const char* sites[] = {"RequestImpl", "PollRequest", "ScanRequest", "ActiveBusRequest", "BusRequest", "Connection::run", "Network::run", "notifyProtocolStatus", "prepareScan", "readFromBus"};
          for (const char* st : sites) if (frames.find(st) != std::string::npos) request = true;
        }
        if (request) {
          r->violate("C20", "leak", "request object lost at orderly shutdown", rep.substr(0, 1500));
        } else {
          sim::count("l3.leak_other_than_request");
          size_t a = rep.find("#1 ");
          if (a != std::string::npos) fprintf(stderr, "LEAK-NOTE %s\n", rep.substr(a, rep.find('\n', a) - a).substr(0, 300).c_str());
        }
      }
    }
    if (tf) fclose(tf);
    sim::count("l3.leak_checks");
  }
#endif
  r->hash = sim::traceHash();
  r->steps = sim::steps();
  r->switches = sim::contextSwitches();
  r->decisions = sim::decisions();
  r->simNs = sim::now();
  for (auto& c : sim::counters()) r->counters[c.first] += c.second;
  r->schedule = sim::recordedSchedule();
  emitResult(*r, g_resultFd);
  fflush(nullptr);
  _exit(0);
}

}  // namespace hz

using namespace hz;

static uint64_t runSeed(uint64_t base, const Family* fam, uint64_t idx) {
  uint64_t h = sim::hcomb(base, sim::hstr(fam->name));
  if (fam->enumerating) return ((h & 0x7fffffffULL) << 32) | (idx & 0xffffffffULL);
  return sim::hcomb(h, idx) >> 1;
}

static int execPlan(const plan::Plan& p, bool verbose) {
  plan::Line c = p.cfg();
  RunFn fn = findHarness(c.get("harness", "l1"));
  if (!fn) { fprintf(stderr, "unknown harness %s\n", c.get("harness").c_str()); return 2; }
  RunResult r;
  fn(p, &r, verbose);   // does not return (finishRun)
  return 0;
}

struct Agg {
  uint64_t runs = 0;
  std::map<std::string, uint64_t> verdicts, counters;
  uint64_t simNs = 0, steps = 0, switches = 0, decisions = 0, nontrivial = 0;
  std::set<uint64_t> hashes;
  std::vector<std::string> viols;
  std::map<std::string, int> samplesPerFamily;
  std::vector<std::string> samples;
};

static double nowSec() {
  struct timespec ts;
  clock_gettime(CLOCK_MONOTONIC, &ts);
  return ts.tv_sec + ts.tv_nsec / 1e9;
}

// run one child; returns its stdout protocol text, stderr tail and status
static bool runChild(const Family* fam, uint64_t seed, const std::string& tier, int timeoutMs, std::string* out,
                     std::string* err, int* status, bool* timedOut) {
  int po[2], pe[2];
  if (pipe(po) != 0 || pipe(pe) != 0) return false;
  fflush(nullptr);
  pid_t pid = fork();
  if (pid < 0) return false;
  if (pid == 0) {
    close(po[0]);
    close(pe[0]);
    dup2(pe[1], 2);
    dup2(pe[1], 1);   // the code under test may print to stdout (verbose CSV errors); keep it out of the result channel
    close(pe[1]);
    g_resultFd = po[1];
    plan::Plan p = fam->generate(seed, tier);
    execPlan(p, false);
    _exit(4);
  }
  close(po[1]);
  close(pe[1]);
  out->clear();
  err->clear();
  *timedOut = false;
  double deadline = nowSec() + timeoutMs / 1000.0;
  struct pollfd fds[2];
  fds[0].fd = po[0]; fds[0].events = POLLIN;
  fds[1].fd = pe[0]; fds[1].events = POLLIN;
  int open = 2;
  char buf[8192];
  while (open > 0) {
    double left = deadline - nowSec();
    if (left <= 0) { *timedOut = true; break; }
    int r = poll(fds, 2, static_cast<int>(left * 1000) + 1);
    if (r < 0) { if (errno == EINTR) continue; break; }
    if (r == 0) { *timedOut = true; break; }
    for (int i = 0; i < 2; i++) {
      if (fds[i].fd < 0 || !(fds[i].revents & (POLLIN | POLLHUP | POLLERR))) continue;
      ssize_t n = read(fds[i].fd, buf, sizeof(buf));
      if (n > 0) {
        if (i == 0) out->append(buf, static_cast<size_t>(n));
        else { err->append(buf, static_cast<size_t>(n)); if (err->size() > 20000) err->erase(0, err->size() - 16000); }
      } else {
        close(fds[i].fd);
        fds[i].fd = -1;
        open--;
      }
    }
  }
  if (*timedOut) kill(pid, SIGKILL);
  for (int i = 0; i < 2; i++) if (fds[i].fd >= 0) close(fds[i].fd);
  while (waitpid(pid, status, 0) < 0 && errno == EINTR) {}
  if (*timedOut || !WIFEXITED(*status) || WEXITSTATUS(*status) != 0) {
    // a run that did not end regularly may have left its scratch directory behind
    char cmd[256];
    const char* base = getenv("VERIF_SCRATCH");
    snprintf(cmd, sizeof(cmd), "rm -rf '%s/%d'", base ? base : "/verif/build/scratch", static_cast<int>(pid));
    if (system(cmd) != 0) { /* ignore */ }
  }
  return true;
}

static std::string sanitizerSig(const std::string& err) {
  // first SUMMARY line without addresses, else first "runtime error" line
  std::istringstream is(err);
  std::string line, best;
  while (std::getline(is, line)) {
    size_t p = line.find("SUMMARY:");
    if (p != std::string::npos) { best = line.substr(p); break; }
    p = line.find("runtime error:");
    if (p != std::string::npos && best.empty()) best = line.substr(p);
    if (best.empty() && line.find("terminate called") != std::string::npos) best = line;
  }
  // strip hex addresses
  std::string o;
  for (size_t i = 0; i < best.size(); i++) {
    if (best[i] == '0' && i + 1 < best.size() && best[i + 1] == 'x') {
      i += 2;
      while (i < best.size() && isxdigit(static_cast<unsigned char>(best[i]))) i++;
      o += "0x..";
      i--;
    } else {
      o += best[i];
    }
  }
  return o.empty() ? "unknown" : o;
}

static int workerMain(int argc, char** argv) {
  std::string fams, tier = "quick", outPath;
  uint64_t seed = 1, from = 0, step = 1, count = 1;
  int timeoutMs = 20000, cpu = -1;
  for (int i = 2; i < argc; i++) {
    std::string a = argv[i];
    auto val = [&]() { return std::string(i + 1 < argc ? argv[++i] : ""); };
    if (a == "--families") fams = val();
    else if (a == "--seed") seed = strtoull(val().c_str(), nullptr, 0);
    else if (a == "--from") from = strtoull(val().c_str(), nullptr, 0);
    else if (a == "--step") step = strtoull(val().c_str(), nullptr, 0);
    else if (a == "--count") count = strtoull(val().c_str(), nullptr, 0);
    else if (a == "--tier") tier = val();
    else if (a == "--out") outPath = val();
    else if (a == "--timeout") timeoutMs = atoi(val().c_str());
    else if (a == "--cpu") cpu = atoi(val().c_str());
    else if (a == "--budget") { /* handled below */ i++; }
  }
  double budget = 0;
  for (int i = 2; i + 1 < argc; i++) if (std::string(argv[i]) == "--budget") budget = atof(argv[i + 1]);
  if (cpu >= 0) {
    cpu_set_t set;
    CPU_ZERO(&set);
    CPU_SET(cpu, &set);
    sched_setaffinity(0, sizeof(set), &set);
  }
  std::vector<const Family*> fl;
  {
    std::istringstream is(fams);
    std::string f;
    while (std::getline(is, f, ',')) {
      const Family* fam = findFamily(f);
      if (!fam) { fprintf(stderr, "unknown family %s\n", f.c_str()); return 2; }
      fl.push_back(fam);
    }
  }
  if (fl.empty()) return 2;
  Agg agg;
  double t0 = nowSec();
  int nHangs = 0;
  for (uint64_t k = 0; k < count; k++) {
    if (budget > 0 && nowSec() - t0 > budget) break;
    if (nHangs >= 2) break;   // two reproduced wall clock overruns are evidence enough; each one costs minutes
    uint64_t idx = from + k * step;
    const Family* fam = fl[idx % fl.size()];
    uint64_t rs = runSeed(seed, fam, idx);   // a family may be listed more than once (weight): the seed depends on the global index
    std::string out, err;
    int status = 0;
    bool to = false;
    runChild(fam, rs, tier, timeoutMs, &out, &err, &status, &to);
    if (to) {  // re-run once; only a reproduced overrun counts
      runChild(fam, rs, tier, timeoutMs * 2, &out, &err, &status, &to);
    }
    agg.runs++;
    bool complete = out.size() >= 4 && out.compare(out.size() - 4, 4, "end\n") == 0;
    std::string verdict = "infra";
    char head[256];
    snprintf(head, sizeof(head), "%llu\t%s\t%llu\t", static_cast<unsigned long long>(idx), fam->name, static_cast<unsigned long long>(rs));
    if (to) {
      nHangs++;
      verdict = "hang";
      agg.viols.push_back(std::string(head) + "C20\thang\twall-clock watchdog\tchild exceeded the wall clock watchdog twice");
    } else if (!complete) {
      int code = WIFEXITED(status) ? WEXITSTATUS(status) : -1;
      int sig = WIFSIGNALED(status) ? WTERMSIG(status) : 0;
      if (code == 77 || code == 78 || sig == SIGSEGV || sig == SIGABRT || sig == SIGBUS || sig == SIGFPE || sig == SIGILL) {
        verdict = "sanitizer";
        std::string tail = err.size() > 1500 ? err.substr(0, 1500) : err;
        for (char& c : tail) if (c == '\n' || c == '\t') c = ' ';
        agg.viols.push_back(std::string(head) + "C20\t" + (code == 77 ? "asan" : code == 78 ? "ubsan" : "crash") + "\t" + sanitizerSig(err) + "\t" + tail);
      } else {
        verdict = "infra";
        std::string tail = err.size() > 600 ? err.substr(err.size() - 600) : err;
        for (char& c : tail) if (c == '\n' || c == '\t') c = ' ';
        char b2[64];
        snprintf(b2, sizeof(b2), "exit=%d sig=%d ", code, sig);
        agg.viols.push_back(std::string(head) + "INFRA\tinfra\tchild failed\t" + b2 + tail);
      }
    } else {
      std::istringstream is(out);
      std::string line;
      uint64_t h = 0;
      bool nontriv = false;
      while (std::getline(is, line)) {
        if (line.compare(0, 8, "verdict ") == 0) verdict = line.substr(8);
        else if (line.compare(0, 5, "hash ") == 0) h = strtoull(line.c_str() + 5, nullptr, 16);
        else if (line.compare(0, 6, "steps ") == 0) agg.steps += strtoull(line.c_str() + 6, nullptr, 10);
        else if (line.compare(0, 9, "switches ") == 0) agg.switches += strtoull(line.c_str() + 9, nullptr, 10);
        else if (line.compare(0, 10, "decisions ") == 0) agg.decisions += strtoull(line.c_str() + 10, nullptr, 10);
        else if (line.compare(0, 6, "simns ") == 0) agg.simNs += strtoull(line.c_str() + 6, nullptr, 10);
        else if (line.compare(0, 11, "nontrivial ") == 0) nontriv = line[11] == '1';
        else if (line.compare(0, 5, "viol ") == 0) agg.viols.push_back(std::string(head) + line.substr(5));
        else if (line.compare(0, 4, "ctr ") == 0) {
          size_t sp = line.rfind(' ');
          agg.counters[line.substr(4, sp - 4)] += strtoull(line.c_str() + sp + 1, nullptr, 10);
        } else if (line.compare(0, 7, "sample ") == 0) {
          if (agg.samplesPerFamily[fam->name]++ < 2) agg.samples.push_back(std::string(head) + line.substr(7));
        }
      }
      if (nontriv) { agg.nontrivial++; agg.hashes.insert(h); }
      if (verdict == "deadlock" || verdict == "step-budget" || verdict == "time-budget") {
        // reported by the kernel through the abort handler as violations already (viol lines)
      }
    }
    agg.verdicts[verdict]++;
  }
  std::ostringstream o;
  o << "runs " << agg.runs << "\n";
  o << "wall " << (nowSec() - t0) << "\n";
  o << "simns " << agg.simNs << "\n";
  o << "steps " << agg.steps << "\n";
  o << "switches " << agg.switches << "\n";
  o << "decisions " << agg.decisions << "\n";
  o << "nontrivial " << agg.nontrivial << "\n";
  for (auto& v : agg.verdicts) o << "verdict " << v.first << " " << v.second << "\n";
  for (auto& c : agg.counters) o << "ctr " << c.first << " " << c.second << "\n";
  for (auto& v : agg.viols) o << "viol " << v << "\n";
  for (auto& s : agg.samples) o << "sample " << s << "\n";
  for (uint64_t h : agg.hashes) o << "h " << std::hex << h << std::dec << "\n";
  if (outPath.empty()) {
    fputs(o.str().c_str(), stdout);
  } else {
    std::ofstream f(outPath);
    f << o.str();
  }
  return 0;
}

int main(int argc, char** argv) {
  setenv("TZ", "UTC", 1);
  tzset();
  signal(SIGPIPE, SIG_IGN);
  if (argc < 2) {
    fprintf(stderr, "usage: simrun list | gen FAMILY SEED [TIER] | genidx FAMILY BASESEED IDX [TIER] | exec PLANFILE [-v] | worker ...\n");
    return 2;
  }
  std::string cmd = argv[1];
  if (cmd == "list") {
    for (auto f : allFamilies()) printf("%s\t%s\t%s\n", f->name, f->harness, f->doc);
    return 0;
  }
  if (cmd == "gen" && argc >= 4) {
    const Family* f = findFamily(argv[2]);
    if (!f) return 2;
    plan::Plan p = f->generate(strtoull(argv[3], nullptr, 0), argc > 4 ? argv[4] : "quick");
    fputs(p.text().c_str(), stdout);
    return 0;
  }
  if (cmd == "exec" && argc >= 3) {
    std::ifstream in(argv[2]);
    if (!in) { fprintf(stderr, "cannot read %s\n", argv[2]); return 2; }
    std::stringstream ss;
    ss << in.rdbuf();
    plan::Plan p = plan::Plan::parse(ss.str());
    bool verbose = argc > 3 && std::string(argv[3]) == "-v";
    g_resultFd = 1;
    return execPlan(p, verbose);
  }
  if (cmd == "worker") return workerMain(argc, argv);
  fprintf(stderr, "unknown command %s\n", cmd.c_str());
  return 2;
}
