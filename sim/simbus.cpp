#include "simbus.h"

#include <stdio.h>
#include <string.h>

namespace simbus {

using sim::History;
using sim::MS;
using sim::US;
using sim::eventAfter;
using sim::eventAt;
using sim::now;

// enhanced protocol constants, from docs/enhanced_proto.md
enum { ENH_INIT = 0, ENH_SEND = 1, ENH_START = 2, ENH_INFO = 3 };
enum { ENH_RESETTED = 0, ENH_RECEIVED = 1, ENH_STARTED = 2, ENH_RINFO = 3, ENH_FAILED = 0xa, ENH_ERR_EBUS = 0xb, ENH_ERR_HOST = 0xc };

static void enhPair(uint8_t cmd, uint8_t data, Bytes* out) {
  out->push_back(static_cast<uint8_t>(0xC0 | (cmd << 2) | (data >> 6)));
  out->push_back(static_cast<uint8_t>(0x80 | (data & 0x3f)));
}

// =====================================================================================
// Port
// =====================================================================================
int Port::open() {
  generation++;
  if (openFailures > 0) {
    openFailures--;
    sim::count("fault.open_fail");
    m_hist->add(now(), sim::EV_FAULT).s = "open_fail";
    return -1;
  }
  m_s = sim::streamNew("tty");
  sim::Stream* s = m_s;
  History* h = m_hist;
  s->onWrite = [this](const uint8_t* p, size_t n) { onWrite(p, n); };
  s->onRead = [h](const uint8_t* p, size_t n) { h->add(now(), sim::EV_READ).bytes.assign(p, p + n); };
  s->onPoll = [h](int ret, ns_t requested, ns_t elapsed) { sim::Ev& e = h->add(now(), sim::EV_POLL); e.a = ret; e.b = elapsed >= requested ? 1 : 0; };
  s->onClose = [h, s]() { h->add(now(), sim::EV_CLOSE).a = s->fd; };
  int mode = m_bus->cfg.chunkMode;
  if (mode == 1) s->readLimit = [](size_t, size_t) { return static_cast<size_t>(1); };
  else if (mode == 2) s->readLimit = [](size_t avail, size_t) { return static_cast<size_t>(1 + sim::frng().below(static_cast<uint32_t>(avail))); };
  s->fault = fault;
  m_hist->add(now(), sim::EV_OPEN).a = s->fd;
  m_txQueue.clear();
  m_txBusy = false;
  m_batch.clear();
  m_enhFirst = -1;
  m_arbArmed = false;
  m_arbSent = false;
  m_infoQueue.clear();
  return s->fd;
}

void Port::toFd(const Bytes& raw, int mask) {
  if (!m_s || m_s->appClosed) return;
  if (m_bus->cfg.batchWindow > 0) {
    m_batch.insert(m_batch.end(), raw.begin(), raw.end());
    m_batchMask.insert(m_batchMask.end(), raw.size(), static_cast<uint8_t>(mask));
    if (!m_batchArmed) {
      m_batchArmed = true;
      eventAfter(m_bus->cfg.batchWindow, [this]() { flushBatch(); });
    }
    return;
  }
  sim::streamFeed(m_s, raw.data(), raw.size());
  sim::Ev& e = m_hist->add(now(), sim::EV_DELIVER);
  e.bytes = raw;
  e.bytes2.assign(raw.size(), static_cast<uint8_t>(mask));
}

void Port::flushBatch() {
  m_batchArmed = false;
  if (m_batch.empty() || !m_s || m_s->appClosed) { m_batch.clear(); m_batchMask.clear(); return; }
  sim::streamFeed(m_s, m_batch.data(), m_batch.size());
  sim::Ev& e = m_hist->add(now(), sim::EV_DELIVER);
  e.bytes = m_batch;
  e.bytes2 = m_batchMask;
  m_batch.clear();
  m_batchMask.clear();
}

void Port::emitEnh(uint8_t cmd, uint8_t data, int mask) {
  Bytes raw;
  enhPair(cmd, data, &raw);
  uint64_t gen = generation;
  eventAfter(m_bus->cfg.rxLatency, [this, raw, gen, mask]() { if (gen == generation) toFd(raw, mask); });
}

void Port::adapterInject(const Bytes& raw) {
  uint64_t gen = generation;
  eventAfter(m_bus->cfg.rxLatency, [this, raw, gen]() { if (gen == generation) toFd(raw, 0); });
}

void Port::wireSymbol(uint8_t b, int mask) {
  if (!m_s || m_s->appClosed) return;
  uint64_t gen = generation;
  if (!m_bus->cfg.enhanced) {
    eventAfter(m_bus->cfg.rxLatency, [this, b, gen, mask]() { if (gen == generation) toFd(Bytes{b}, mask); });
    return;
  }
  // enhanced adapter firmware model
  if (m_arbSent && (mask & sim::CB_EBUSD)) {
    // the symbol the adapter sent for arbitration: report the result instead of RECEIVED
    m_arbSent = false;
    m_arbArmed = false;
    emitEnh(b == m_arbAddr ? ENH_STARTED : ENH_FAILED, b, mask);
    return;
  }
  Bytes raw;
  if (b < 0x80 && static_cast<int>(sim::frng().below(100)) < m_bus->cfg.enhPlainPct) raw.push_back(b);
  else enhPair(ENH_RECEIVED, b, &raw);
  eventAfter(m_bus->cfg.rxLatency, [this, raw, gen, mask]() { if (gen == generation) toFd(raw, mask); });
  if (b == ref::SYN && m_arbArmed && !m_arbSent) {
    m_arbSent = true;
    uint8_t addr = m_arbAddr;
    eventAfter(m_bus->cfg.arbDelay, [this, addr, gen]() {
      if (gen != generation || !m_arbSent) return;
      m_bus->transmit(sim::CB_EBUSD, addr, 0);
    });
  }
}

void Port::handleEnhancedCmd(uint8_t cmd, uint8_t data) {
  switch (cmd) {
    case ENH_INIT:
      m_arbArmed = false;
      m_arbSent = false;
      emitEnh(ENH_RESETTED, static_cast<uint8_t>(data & m_bus->cfg.enhFeatures), 0);
      break;
    case ENH_SEND:
      m_txQueue.push_back(data);
      pumpTx();
      break;
    case ENH_START:
      if (data == ref::SYN) {
        m_arbArmed = false;
        m_arbSent = false;
      } else {
        m_arbArmed = true;
        m_arbSent = false;
        m_arbAddr = data;
      }
      break;
    case ENH_INFO: {
      // version info for id 0, two bytes for the others
      Bytes info;
      if (data == 0) info = {8, 0x23, 0x01, 0x12, 0x34, 0x01, 0x23, 0x12, 0x34};
      else if (data == 1) info = {9, 1, 2, 3, 4, 5, 6, 7, 8, 0};
      else if (data == 2) info = {8, 0, 0, 0x3f, 0, 0, 0, 0, 0};
      else info = {2, 0x01, 0x17};
      ns_t d = m_bus->cfg.rxLatency;
      uint64_t gen = generation;
      for (uint8_t x : info) {
        Bytes raw;
        enhPair(ENH_RINFO, x, &raw);
        eventAfter(d, [this, raw, gen]() { if (gen == generation) toFd(raw, 0); });
        d += 200 * US;
      }
      break;
    }
    default:
      break;
  }
}

void Port::onWrite(const uint8_t* p, size_t n) {
  m_hist->add(now(), sim::EV_WRITE).bytes.assign(p, p + n);
  if (!m_bus->cfg.enhanced) {
    for (size_t i = 0; i < n; i++) m_txQueue.push_back(p[i]);
    pumpTx();
    return;
  }
  for (size_t i = 0; i < n; i++) {
    uint8_t c = p[i];
    if (!(c & 0x80)) {
      m_enhFirst = -1;
      m_txQueue.push_back(c);
      pumpTx();
    } else if ((c & 0xC0) == 0xC0) {
      m_enhFirst = c;
    } else if (m_enhFirst >= 0) {
      uint8_t cmd = static_cast<uint8_t>((m_enhFirst >> 2) & 0xf);
      uint8_t data = static_cast<uint8_t>(((m_enhFirst & 3) << 6) | (c & 0x3f));
      m_enhFirst = -1;
      handleEnhancedCmd(cmd, data);
    }
  }
}

void Port::pumpTx() {
  if (m_txBusy || m_txQueue.empty()) return;
  uint8_t b = m_txQueue.front();
  m_txQueue.pop_front();
  m_txBusy = true;
  uint64_t gen = generation;
  eventAfter(m_bus->cfg.txLatency, [this, b, gen]() {
    if (gen != generation) { m_txBusy = false; return; }
    m_bus->transmit(sim::CB_EBUSD, b, 0);
  });
}

void Port::onOwnSymbolDone() {
  m_txBusy = false;
  pumpTx();
}

// =====================================================================================
// Bus
// =====================================================================================
Bus::Bus(const BusConfig& c, History* h) : cfg(c), hist(h), port(this, h) {}

void Bus::start() { armSyn(); }

void Bus::setSynGen(bool on) {
  cfg.synGen = on;
  if (on) armSyn(); else m_synGen++;
}

void Bus::armSyn() {
  uint64_t gen = ++m_synGen;
  if (!cfg.synGen) return;
  eventAfter(cfg.synPeriod, [this, gen]() { synTimer(gen); });
}

void Bus::synTimer(uint64_t gen) {
  if (gen != m_synGen || m_busy || !cfg.synGen) return;
  if (m_mode == SCRIPT) { armSyn(); return; }   // a script owns its own gaps
  transmit(sim::CB_SYNGEN, ref::SYN, 0);
}

static uint8_t g_ebusdByte = 0;
static uint8_t g_scriptByte = 0;

void Bus::transmit(int who, uint8_t b, uint64_t item) {
  if (who == sim::CB_EBUSD) {
    g_ebusdByte = b;
    bool answering = m_mode == REQ_WAIT_ACK || m_mode == REQ_RECV_RESP;
    if (!answering && !(b == ref::SYN && m_emTxCount == 0)) {
      // symbol k of ebusd since the last SYN (a SYN as first symbol is an AUTO-SYN, not an exchange);
      // the reaction of the addressed participant is bound at the first one
      if (m_emTxCount == 0) {
        if (!reacts.empty()) { m_react = reacts.front(); reacts.pop_front(); nReactsUsed++; }
        else m_react = React();
      }
      if (m_react.echoBadAt == m_emTxCount) {
        b = static_cast<uint8_t>(b ^ (m_react.echoXor ? m_react.echoXor : 0x04));
        who |= sim::CB_NOISE;
        sim::count("fault.echo_mismatch");
        hist->add(now(), sim::EV_FAULT).s = "echo_mismatch";
      }
      m_emTxCount++;
    }
  } else if (who & (sim::CB_MASTER | sim::CB_SLAVE)) {
    g_scriptByte = b;
  }
  if (!m_busy) {
    m_busy = true;
    m_cur = b;
    m_mask = who;
    m_curItem = item;
    eventAfter(SYM, [this]() { complete(); });
  } else {
    m_cur &= b;
    m_mask |= who;
    if (item) m_curItem = item;
    nCollisions++;
  }
}

void Bus::complete() {
  m_busy = false;
  uint8_t b = m_cur;
  int mask = m_mask;
  m_lastEnd = now();
  nSymbols++;
  if ((mask & sim::CB_EBUSD) && b == g_ebusdByte) mask |= sim::CB_EBUSD_MATCH;
  sim::Ev& e = hist->add(now(), sim::EV_SYMBOL);
  e.a = b;
  e.b = mask;
  e.id = m_curItem;
  bool afterSyn = m_lastWasSyn;
  m_lastWasSyn = b == ref::SYN;
  port.wireSymbol(b, mask);
  if (mask & sim::CB_EBUSD) port.onOwnSymbolDone();
  onSymbol(b, mask, afterSyn);
  armSyn();
}

void Bus::sendList(const std::vector<Step>& l, size_t pos, uint64_t gen) {
  ns_t t = now();
  for (size_t i = pos; i < l.size(); i++) {
    t += l[i].gap;
    Step s = l[i];
    uint64_t item = m_item.id;
    eventAt(t, [this, s, gen, item]() {
      if (gen != m_gen) return;
      int who = s.who == 'S' ? sim::CB_SLAVE : s.who == 'N' ? sim::CB_NOISE : sim::CB_MASTER;
      transmit(who, s.b, item);
    });
    t += SYM + 60 * US;
  }
}

void Bus::startItem() {
  switch (m_item.kind) {
    case BusItem::SIGOFF: {
      setSynGen(false);
      sim::count("fault.signal_off");
      hist->add(now(), sim::EV_FAULT).s = "signal_off";
      eventAfter(m_item.offMs * MS, [this]() { setSynGen(true); });
      m_haveItem = false;
      nItemsDone++;
      break;
    }
    case BusItem::IDLE:
      m_haveItem = false;
      nItemsDone++;
      break;
    case BusItem::SCRIPT:
    case BusItem::REQUESTER: {
      if (m_item.steps.empty()) { m_haveItem = false; nItemsDone++; break; }
      m_mode = SCRIPT;
      m_pos = 0;
      uint64_t gen = ++m_gen;
      std::vector<Step> l = m_item.steps;
      l[0].gap += cfg.arbDelay;
      sendList(l, 0, gen);
      break;
    }
  }
}

void Bus::endItem(bool lostArb) {
  m_gen++;
  m_mode = IDLE;
  m_haveItem = false;
  if (lostArb) { nItemsLostArb++; sim::count("bus.item_lost_arbitration"); }
  else nItemsDone++;
}

void Bus::requesterTimeout(uint64_t gen) {
  if (gen != m_gen) return;
  if (m_mode != REQ_WAIT_ACK && m_mode != REQ_RECV_RESP) return;
  // give up: end with SYN
  sim::count("bus.requester_timeout");
  endItem(false);
  transmit(sim::CB_MASTER, ref::SYN, m_item.id);
}

void Bus::requesterSymbol(uint8_t b, int mask) {
  if (!(mask & sim::CB_EBUSD)) return;
  uint64_t gen = ++m_gen;
  auto sendSoon = [this](uint8_t x, ns_t d, uint64_t g) {
    uint64_t item = m_item.id;
    eventAfter(d, [this, x, g, item]() { if (g == m_gen) transmit(sim::CB_MASTER, x, item); });
  };
  if (m_mode == REQ_WAIT_ACK) {
    if (b == ref::ACK) {
      if (m_item.expectResponse) {
        m_mode = REQ_RECV_RESP;
        m_rq.clear();
        m_rqUnesc.clear();
        m_rqEsc = false;
        eventAfter(25 * MS, [this, gen]() { requesterTimeout(gen); });
      } else {
        endItem(false);
        sendSoon(ref::SYN, 300 * US, m_gen);
      }
    } else if (b == ref::NAK && m_rqAttempt == 0) {
      m_rqAttempt = 1;
      requesterSendMaster(true);
    } else {
      endItem(false);
      sendSoon(ref::SYN, 300 * US, m_gen);
    }
    return;
  }
  // REQ_RECV_RESP: collect NN D.. CRC (escaped on the wire)
  uint8_t u = b;
  if (m_rqEsc) { u = b == 0 ? ref::ESC : b == 1 ? ref::SYN : b; m_rqEsc = false; }
  else if (b == ref::ESC) { m_rqEsc = true; eventAfter(25 * MS, [this, gen]() { requesterTimeout(gen); }); return; }
  m_rqUnesc.push_back(u);
  size_t need = static_cast<size_t>(m_rqUnesc[0]) + 2;   // NN + data + CRC
  if (m_rqUnesc.size() < need) {
    eventAfter(25 * MS, [this, gen]() { requesterTimeout(gen); });
    return;
  }
  // complete response
  if (m_rqRespSeen < m_item.nakResponses) {
    m_rqRespSeen++;
    sim::count("bus.requester_nak_response");
    sendSoon(ref::NAK, 400 * US, gen);
    m_rqUnesc.clear();
    if (m_rqRespSeen >= 2) {
      // second NAK: the exchange is over
      uint64_t g2 = gen;
      eventAfter(400 * US + SYM + 500 * US, [this, g2]() {
        if (g2 != m_gen) return;
        endItem(false);
        transmit(sim::CB_MASTER, ref::SYN, m_item.id);
      });
    } else {
      eventAfter(40 * MS, [this, gen]() { requesterTimeout(gen); });
    }
  } else {
    sendSoon(ref::ACK, 400 * US, gen);
    uint64_t g2 = gen;
    eventAfter(400 * US + SYM + 300 * US, [this, g2]() {
      if (g2 != m_gen) return;
      endItem(false);
      transmit(sim::CB_MASTER, ref::SYN, m_item.id);
    });
  }
}

void Bus::requesterSendMaster(bool second) {
  std::vector<Step> l;
  const Bytes* src = nullptr;
  Bytes first;
  if (second && !m_item.master2.empty()) src = &m_item.master2;
  if (src) {
    for (uint8_t x : *src) { Step s; s.who = 'M'; s.b = x; l.push_back(s); }
  } else {
    l = m_item.steps;
  }
  if (l.empty()) { endItem(false); return; }
  m_mode = SCRIPT;
  uint64_t gen = ++m_gen;
  l[0].gap += 500 * US;
  m_pos = 0;
  // temporarily replace the steps so that the end of the list is recognised
  m_item.steps = l;
  sendList(l, 0, gen);
}

void Bus::onSymbol(uint8_t b, int mask, bool afterSyn) {
  bool ebusdSym = (mask & sim::CB_EBUSD) != 0;
  bool ebusdWon = ebusdSym && afterSyn && b == g_ebusdByte && b != ref::SYN;
  if (b == ref::SYN) m_emTxCount = 0;

  if (m_mode == SCRIPT) {
    bool ours = (mask & (sim::CB_MASTER | sim::CB_SLAVE | sim::CB_NOISE)) != 0;
    if (ours) {
      if (afterSyn && b != g_scriptByte && b != ref::SYN) {
        // lost the arbitration (or collided): the scripted sender backs off
        endItem(true);
        if (ebusdWon) {
          m_mode = EBUSD_MASTER;
          nEbusdExchanges++;
          m_em.clear(); m_emCrc = 0; m_emEsc = false; m_emAttempt = 0; m_emRespAttempt = 0; m_emMasterDone = false;
          ebusdMasterSymbol(b);
        }
        return;
      }
      m_pos++;
      if (m_pos >= m_item.steps.size()) {
        if (m_item.kind == BusItem::REQUESTER) {
          m_mode = REQ_WAIT_ACK;
          uint64_t gen = ++m_gen;
          eventAfter(25 * MS, [this, gen]() { requesterTimeout(gen); });
          return;
        }
        endItem(false);
        // fall through to the IDLE handling so that a trailing SYN can start the next item
      } else {
        return;
      }
    } else {
      return;  // foreign symbol during a script gap (e.g. ebusd's AUTO-SYN): ignored by the script
    }
  }

  if (m_mode == REQ_WAIT_ACK || m_mode == REQ_RECV_RESP) {
    if (b == ref::SYN && !(mask & sim::CB_MASTER)) { endItem(false); }
    else { requesterSymbol(b, mask); return; }
  }

  if (m_mode == EBUSD_MASTER || m_mode == EBUSD_WAIT_RESP_ACK) {
    if (b == ref::SYN) {
      m_mode = IDLE;
      m_gen++;
    } else {
      if (ebusdSym) {
        if (m_mode == EBUSD_MASTER) ebusdMasterSymbol(b);
        else if (b == ref::NAK && m_emRespAttempt == 0) {
          m_emRespAttempt = 1;
          m_mode = EBUSD_MASTER;
          m_emMasterDone = true;
          uint64_t gen = ++m_gen;
          eventAfter(m_react.delay, [this, gen]() { if (gen == m_gen) respond(); });
        }
      }
      return;
    }
  }

  // IDLE
  if (ebusdWon && m_mode == IDLE) {
    m_mode = EBUSD_MASTER;
    nEbusdExchanges++;
    m_em.clear(); m_emCrc = 0; m_emEsc = false; m_emAttempt = 0; m_emRespAttempt = 0; m_emMasterDone = false;
    ebusdMasterSymbol(b);
    return;
  }
  if (b == ref::SYN && m_mode == IDLE) {
    if (!m_haveItem && !items.empty()) {
      m_item = items.front();
      items.pop_front();
      m_haveItem = true;
      m_idleLeft = m_item.idleSyns;
      m_rqAttempt = 0;
      m_rqRespSeen = 0;
    }
    if (m_haveItem) {
      if (m_idleLeft > 0) {
        m_idleLeft--;
        if (m_item.kind == BusItem::IDLE && m_idleLeft == 0) { m_haveItem = false; nItemsDone++; }
      } else {
        startItem();
      }
    }
  }
}

void Bus::ebusdMasterSymbol(uint8_t raw) {
  if (m_emMasterDone) return;
  uint8_t u = raw;
  bool isCrcPos = m_em.size() >= 5 && m_em.size() == static_cast<size_t>(5 + m_em[4]);
  if (m_emEsc) {
    u = raw == 0 ? ref::ESC : raw == 1 ? ref::SYN : raw;
    m_emEsc = false;
    if (!isCrcPos) m_emCrc = ref::crcStep(m_emCrc, raw);
  } else if (raw == ref::ESC) {
    m_emEsc = true;
    if (!isCrcPos) m_emCrc = ref::crcStep(m_emCrc, raw);
    return;
  } else if (!isCrcPos) {
    m_emCrc = ref::crcStep(m_emCrc, raw);
  }
  if (!isCrcPos) {
    m_em.push_back(u);
    return;
  }
  // CRC received: the master part is complete
  m_emMasterDone = true;
  bool crcOk = u == m_emCrc;
  if (!crcOk) sim::count("bus.ebusd_master_crc_bad");
  uint64_t gen = ++m_gen;
  eventAfter(m_react.delay, [this, gen]() { if (gen == m_gen) respond(); });
  (void)crcOk;
}

void Bus::respond() {
  if (m_em.size() < 5) return;
  uint8_t zz = m_em[1];
  if (zz == ref::BROADCAST) { if (onExchange) onExchange(m_em, Bytes(), true); return; }
  uint64_t gen = m_gen;
  std::vector<Step> l;
  auto add = [&l](uint8_t b, ns_t gap = 0) { Step s; s.who = 'S'; s.b = b; s.gap = gap; l.push_back(s); };
  bool repeatResponseOnly = m_emRespAttempt == 1;
  if (!repeatResponseOnly) {
    char k = m_emAttempt == 0 ? m_react.ack1 : m_react.ack2;
    sim::count(std::string("bus.react_ack_") + k);
    if (k == 'N') sim::count("fault.slave_nak"); else if (k == '-') sim::count("fault.slave_silent"); else if (k != 'A') sim::count("fault.slave_wrong_ack");
    if (k != 'A' && onExchange) onExchange(m_em, Bytes(), false);   // the request was seen but not accepted
    if (k == '-') { return; }
    if (k == 'S') { add(ref::SYN); sendList(l, 0, gen); return; }
    if (k == 'X') { add(m_react.ackVal); sendList(l, 0, gen); return; }
    if (k == 'N') {
      add(ref::NAK);
      sendList(l, 0, gen);
      m_emAttempt++;
      m_em.clear(); m_emCrc = 0; m_emEsc = false; m_emMasterDone = false;
      return;
    }
    add(ref::ACK);
    if (ref::isMaster(zz)) { if (onExchange) onExchange(m_em, Bytes(), true); sendList(l, 0, gen); return; }
  }
  char rk = m_emRespAttempt == 0 ? m_react.resp1 : m_react.resp2;
  sim::count(std::string("bus.react_resp_") + rk);
  if (rk == 'C') sim::count("fault.slave_bad_crc"); else if (rk == '-') sim::count("fault.slave_no_response"); else if (rk != 'G') sim::count("fault.slave_malformed_response");
  if (rk == '-' && onExchange) onExchange(m_em, Bytes(), false);   // acknowledged, but no response follows
  if (rk != '-') {
    Bytes data = m_react.respData;
    if (data.empty() && slaveResponder) data = slaveResponder(m_em);
    if (onExchange) onExchange(m_em, rk == 'G' ? data : Bytes(), rk == 'G');   // one record per response attempt
    if (data.empty()) {
      uint64_t hsh = sim::hcomb(nEbusdExchanges, 0x77);
      data = {2, static_cast<uint8_t>(hsh & 0xff), static_cast<uint8_t>((hsh >> 8) & 0xff)};
    }
    Bytes wire = ref::escaped(data);
    uint8_t crc = ref::crcOf(data);
    if (rk == 'C') crc = static_cast<uint8_t>(crc ^ 0x21);
    Bytes crcw;
    ref::escapeInto(crc, &crcw);
    if (rk == 'T') { /* CRC left out: the response stays one byte short */ }
    else wire.insert(wire.end(), crcw.begin(), crcw.end());
    if (rk == 'L') wire.push_back(0x00);
    bool first = true;
    for (uint8_t x : wire) { add(x, first && !repeatResponseOnly ? 300 * US : 0); first = false; }
  }
  m_mode = EBUSD_WAIT_RESP_ACK;
  sendList(l, 0, gen);
}

// =====================================================================================
// plan helpers
// =====================================================================================
std::string stepsToText(const std::vector<Step>& s) {
  std::string out;
  char buf[48];
  for (size_t i = 0; i < s.size(); i++) {
    if (s[i].gap) snprintf(buf, sizeof(buf), "%s%c%02x:%lld", i ? "," : "", s[i].who, s[i].b, static_cast<long long>(s[i].gap / US));
    else snprintf(buf, sizeof(buf), "%s%c%02x", i ? "," : "", s[i].who, s[i].b);
    out += buf;
  }
  return out;
}

std::vector<Step> stepsFromText(const std::string& t) {
  std::vector<Step> out;
  size_t i = 0;
  while (i < t.size()) {
    size_t j = t.find(',', i);
    if (j == std::string::npos) j = t.size();
    std::string tok = t.substr(i, j - i);
    if (tok.size() >= 3) {
      Step s;
      s.who = tok[0];
      s.b = static_cast<uint8_t>(strtoul(tok.substr(1, 2).c_str(), nullptr, 16));
      size_t c = tok.find(':');
      if (c != std::string::npos) s.gap = strtoll(tok.c_str() + c + 1, nullptr, 10) * US;
      out.push_back(s);
    }
    i = j + 1;
  }
  return out;
}

BusItem itemFromLine(const plan::Line& l, uint64_t id) {
  BusItem it;
  it.id = id;
  it.idleSyns = static_cast<int>(l.num("idle", 0));
  if (l.sub == "idle") { it.kind = BusItem::IDLE; it.idleSyns = static_cast<int>(l.num("n", 1)); }
  else if (l.sub == "sigoff") { it.kind = BusItem::SIGOFF; it.offMs = l.num("ms", 300); }
  else if (l.sub == "requester") {
    it.kind = BusItem::REQUESTER;
    it.steps = stepsFromText(l.get("steps"));
    it.master2 = ref::unhex(l.get("second"));
    it.nakResponses = static_cast<int>(l.num("nakresp", 0));
    it.expectResponse = l.num("slave", 0) != 0;
  } else {
    it.kind = BusItem::SCRIPT;
    it.steps = stepsFromText(l.get("steps"));
  }
  return it;
}

React reactFromLine(const plan::Line& l, uint64_t id) {
  React r;
  r.id = id;
  std::string s;
  s = l.get("ack1", "A"); r.ack1 = s[0];
  s = l.get("ack2", "A"); r.ack2 = s[0];
  s = l.get("resp1", "G"); r.resp1 = s[0];
  s = l.get("resp2", "G"); r.resp2 = s[0];
  r.ackVal = static_cast<uint8_t>(l.num("ackval", 0x55));
  r.respData = ref::unhex(l.get("data"));
  r.echoBadAt = static_cast<int>(l.num("echobad", -1));
  r.echoXor = static_cast<uint8_t>(l.num("xor", 0x04));
  r.delay = l.num("delay", 500) * US;
  return r;
}

BusConfig busConfigFromLine(const plan::Line& c) {
  BusConfig b;
  b.enhanced = c.num("enhanced", 0) != 0;
  b.rxLatency = c.num("rxlat", 300) * US;
  b.txLatency = c.num("txlat", 200) * US;
  b.synPeriod = c.num("synperiod", 44000) * US;
  b.synGen = c.num("syngen", 1) != 0;
  b.arbDelay = c.num("arbdelay", 300) * US;
  b.chunkMode = static_cast<int>(c.num("chunk", 0));
  b.batchWindow = c.num("batch", 0) * US;
  b.enhPlainPct = static_cast<int>(c.num("enhplain", 100));
  b.enhFeatures = static_cast<int>(c.num("enhfeat", 1));
  b.ownAddress = static_cast<uint8_t>(c.num("own", 0x31));
  return b;
}

}  // namespace simbus
