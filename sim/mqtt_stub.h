// Broker stub behind the repo's own abstract MqttClient interface (the mosquitto client is not linked).
#ifndef VERIF_MQTT_STUB_H_
#define VERIF_MQTT_STUB_H_
#include <deque>
#include <string>
#include <utility>
#include <vector>
namespace mqttstub {
struct Published { int64_t t; std::string topic, data; bool retain; };
struct Broker {
  std::vector<Published> published;
  std::vector<std::string> subscriptions;
  std::deque<std::pair<std::string, std::string>> incoming;   // delivered to the listener by the handler thread in run()
  bool connectOk = true;
  int clients = 0;
};
Broker& broker();
}  // namespace mqttstub
#endif
