// The recorded history of one simulated run: every externally observable event in one total order.
#ifndef VERIF_HISTORY_H_
#define VERIF_HISTORY_H_

#include <stdint.h>
#include <stdio.h>
#include <string>
#include <vector>

namespace sim {

enum EvKind : char {
  EV_SYMBOL = 'S',    // wire symbol completed: a=byte, b=contributor mask, id=plan item
  EV_DELIVER = 'D',   // bytes appended to the device fd buffer (what the adapter/tty hands to the kernel)
  EV_READ = 'R',      // read() on the device fd returned bytes
  EV_WRITE = 'W',     // write() on the device fd
  EV_POLL = 'P',      // ppoll() on the device fd returned: a=ret (0 = timeout, <0 error)
  EV_OPEN = 'O',      // device opened: a=fd
  EV_CLOSE = 'C',     // device closed by ebusd
  EV_FAULT = 'X',     // a fault fired: s=name
  EV_MESSAGE = 'N',   // ProtocolListener::notifyProtocolMessage: a=direction, bytes=master, bytes2=slave
  EV_STATUS = 'T',    // ProtocolListener::notifyProtocolStatus: a=state, b=result
  EV_REQUEST = 'Q',   // request event: id=request, a=RequestEv, b=result, bytes=slave
  EV_STALL = 'L',     // thread stall injected: a=ms, s=thread
  EV_DEVSTATUS = 'V', // DeviceListener status notification: a=error, s=message
  EV_RXSYM = 'r',     // device level: symbol handed to the protocol layer (after adapter decoding): a=byte, b=arb state
  EV_TXSYM = 'w',     // device level: symbol ebusd asked to transmit: a=byte, b=kind
  EV_NOTE = '#',
};

enum RequestEv { RQ_SUBMIT = 0, RQ_NOTIFY = 1, RQ_RETURN = 2, RQ_DESTROY = 3 };

// contributor mask bits of a wire symbol
enum Contributor { CB_EBUSD = 1, CB_MASTER = 2, CB_SLAVE = 4, CB_SYNGEN = 8, CB_NOISE = 16, CB_EBUSD_MATCH = 32 /* the symbol equals what ebusd transmitted */ };

struct Ev {
  int64_t t = 0;
  char kind = '#';
  int64_t a = 0, b = 0;
  uint64_t id = 0;
  std::vector<uint8_t> bytes, bytes2;
  std::string s;
};

struct History {
  std::vector<Ev> evs;
  Ev& add(int64_t t, char kind) {
    evs.emplace_back();
    evs.back().t = t;
    evs.back().kind = kind;
    return evs.back();
  }
  std::string dump(size_t from = 0, size_t to = static_cast<size_t>(-1)) const;
};

inline std::string History::dump(size_t from, size_t to) const {
  static const char* d = "0123456789abcdef";
  std::string out;
  char buf[160];
  for (size_t i = from; i < evs.size() && i < to; i++) {
    const Ev& e = evs[i];
    snprintf(buf, sizeof(buf), "%6zu %10.3fms %c a=%lld b=%lld id=%llu ", i, e.t / 1e6, e.kind, static_cast<long long>(e.a),
             static_cast<long long>(e.b), static_cast<unsigned long long>(e.id));
    out += buf;
    for (uint8_t x : e.bytes) { out += d[x >> 4]; out += d[x & 15]; }
    if (!e.bytes2.empty()) { out += " / "; for (uint8_t x : e.bytes2) { out += d[x >> 4]; out += d[x & 15]; } }
    if (!e.s.empty()) { out += " "; out += e.s; }
    out += "\n";
  }
  return out;
}

}  // namespace sim

#endif  // VERIF_HISTORY_H_
