// simkernel implementation: baton scheduler, simulated clock, fds, locks, condvars and the --wrap entry points.
#include "simkernel.h"

#include <errno.h>
#include <fcntl.h>
#include <netinet/in.h>
#include <poll.h>
#include <pthread.h>
#include <semaphore.h>
#include <stdarg.h>
#include <stdio.h>
#include <stdlib.h>
#include <string.h>
#include <sys/ioctl.h>
#include <sys/socket.h>
#include <sys/time.h>
#include <time.h>
#include <unistd.h>

#include <algorithm>
#include <queue>

extern "C" {
int __real_pthread_create(pthread_t*, const pthread_attr_t*, void* (*)(void*), void*);
int __real_pthread_join(pthread_t, void**);
int __real_pthread_detach(pthread_t);
int __real_pthread_cancel(pthread_t);
int __real_pthread_setname_np(pthread_t, const char*);
int __real_pthread_mutex_init(pthread_mutex_t*, const pthread_mutexattr_t*);
int __real_pthread_mutex_destroy(pthread_mutex_t*);
int __real_pthread_mutex_lock(pthread_mutex_t*);
int __real_pthread_mutex_trylock(pthread_mutex_t*);
int __real_pthread_mutex_unlock(pthread_mutex_t*);
int __real_pthread_cond_init(pthread_cond_t*, const pthread_condattr_t*);
int __real_pthread_cond_destroy(pthread_cond_t*);
int __real_pthread_cond_wait(pthread_cond_t*, pthread_mutex_t*);
int __real_pthread_cond_timedwait(pthread_cond_t*, pthread_mutex_t*, const struct timespec*);
int __real_pthread_cond_signal(pthread_cond_t*);
int __real_pthread_cond_broadcast(pthread_cond_t*);
time_t __real_time(time_t*);
int __real_clock_gettime(clockid_t, struct timespec*);
int __real_gettimeofday(struct timeval*, void*);
int __real_usleep(useconds_t);
int __real_nanosleep(const struct timespec*, struct timespec*);
unsigned int __real_sleep(unsigned int);
ssize_t __real_read(int, void*, size_t);
ssize_t __real_write(int, const void*, size_t);
int __real_close(int);
int __real_ppoll(struct pollfd*, nfds_t, const struct timespec*, const sigset_t*);
int __real_poll(struct pollfd*, nfds_t, int);
int __real_ioctl(int, unsigned long, void*);
int __real_fcntl(int, int, long);
ssize_t __real_recv(int, void*, size_t, int);
ssize_t __real_send(int, const void*, size_t, int);
int __real_shutdown(int, int);
int __real_pipe(int[2]);
int __real_socket(int, int, int);
int __real_bind(int, const struct sockaddr*, socklen_t);
int __real_listen(int, int);
int __real_accept(int, struct sockaddr*, socklen_t*);
int __real_connect(int, const struct sockaddr*, socklen_t);
int __real_setsockopt(int, int, int, const void*, socklen_t);
}

namespace sim {

uint64_t mix64(uint64_t x) {
  x += 0x9e3779b97f4a7c15ULL;
  x = (x ^ (x >> 30)) * 0xbf58476d1ce4e5b9ULL;
  x = (x ^ (x >> 27)) * 0x94d049bb133111ebULL;
  return x ^ (x >> 31);
}
uint64_t hstr(const char* s) {
  uint64_t h = 1469598103934665603ULL;
  for (; *s; s++) { h ^= static_cast<unsigned char>(*s); h *= 1099511628211ULL; }
  return h;
}
uint64_t Rng::next() {
  s ^= s << 13; s ^= s >> 7; s ^= s << 17;
  return mix64(s);
}

namespace {

enum TState { T_RUNNABLE, T_BLOCKED, T_DONE };

struct SimThread {
  int tid = 0;
  std::string name;
  pthread_t real{};
  TState state = T_RUNNABLE;
  const std::function<bool()>* pred = nullptr;
  ns_t deadline = -1;
  const char* why = "";
  bool wokePred = false;
  ns_t stallUntil = 0;
  sem_t sem;
  void* (*fn)(void*) = nullptr;
  void* arg = nullptr;
  std::function<void()> sfn;
  int64_t prio = 0;
  bool started = false;
  bool released = false;   // joined (or detached and finished): the pthread_t value may be reused by a later thread
  bool detached = false;
};

struct MutexState { int owner = -1; int count = 0; };
struct Waiter { int tid; bool signalled; };
struct CondState { std::vector<Waiter*> waiters; };

struct Event {
  ns_t t; uint64_t seq; uint64_t id;
  bool operator<(const Event& o) const { return t != o.t ? t > o.t : seq > o.seq; }
};

struct FdEntry { Stream* s = nullptr; Listener* l = nullptr; };

struct Kernel {
  bool active = false;
  bool inEnv = false;
  KConfig cfg;
  ns_t now = 0;
  Rng srng{1}, frng{2};
  std::vector<SimThread*> threads;
  SimThread* cur = nullptr;
  std::map<void*, MutexState> mutexes;
  std::map<void*, CondState> conds;
  std::priority_queue<Event> events;
  std::map<uint64_t, std::function<void()>> eventFns;
  uint64_t eventSeq = 0;
  std::deque<FdEntry> fds;   // deque: entries keep their address when descriptors are added (pointers are held across reschedule())
  std::map<int, Listener*> listeners;
  uint64_t hash = 0x1234567;
  uint64_t steps = 0, switches = 0, ndecisions = 0;
  size_t schedPos = 0;
  std::vector<int> recorded;
  std::vector<uint64_t> pctPoints;
  std::function<void(const char*, const std::string&)> abortHandler;
  std::map<std::string, uint64_t> counters;
  bool aborting = false;
};
Kernel K;

inline void fold(uint64_t v) { K.hash = mix64(K.hash ^ v) + 0x632be59bd9b4e019ULL; }

void vtrace(const char* tag, uint64_t a, uint64_t b) {
  fold(hstr(tag)); fold(a); fold(b);
  if (K.cfg.verbose) {
    fprintf(stderr, "[%10.3f] T%d %-14s %llx %llx\n", K.now / 1e6, K.cur ? K.cur->tid : -1, tag,
            static_cast<unsigned long long>(a), static_cast<unsigned long long>(b));
  }
}

bool eligible(SimThread* t, bool* viaPred) {
  if (t->state == T_DONE || t->stallUntil > K.now) return false;
  if (t->state == T_RUNNABLE) { *viaPred = false; return true; }
  if (t->pred && (*t->pred)()) { *viaPred = true; return true; }
  if (t->deadline >= 0 && t->deadline <= K.now) { *viaPred = false; return true; }
  return false;
}

int decide(int n, int defaultIdx) {
  // one recorded decision among n > 1 alternatives
  int choice;
  if (K.cfg.replaySchedule) {
    if (K.schedPos < K.cfg.schedule.size()) {
      int v = K.cfg.schedule[K.schedPos++];
      choice = v < 0 ? defaultIdx : v % n;
    } else {
      choice = defaultIdx;
    }
  } else {
    choice = -1;  // caller decides by policy
  }
  return choice;
}

void runDueEvents() {
  while (!K.events.empty() && K.events.top().t <= K.now) {
    Event e = K.events.top();
    K.events.pop();
    auto it = K.eventFns.find(e.id);
    if (it == K.eventFns.end()) continue;  // cancelled
    std::function<void()> f = std::move(it->second);
    K.eventFns.erase(it);
    K.inEnv = true;
    f();
    K.inEnv = false;
  }
}

SimThread* pickNext() {
  for (;;) {
    if (++K.steps > K.cfg.maxSteps) abortRun("step-budget", "step budget exceeded");
    runDueEvents();
    std::vector<SimThread*> cand;
    std::vector<bool> via;
    for (SimThread* t : K.threads) {
      bool v = false;
      if (eligible(t, &v)) { cand.push_back(t); via.push_back(v); }
    }
    if (cand.empty()) {
      ns_t next = -1;
      auto upd = [&](ns_t t) { if (t >= 0 && (next < 0 || t < next)) next = t; };
      if (!K.events.empty()) upd(K.events.top().t);
      for (SimThread* t : K.threads) {
        if (t->state == T_DONE) continue;
        if (t->state == T_BLOCKED) {
          if (t->deadline >= 0) upd(std::max(t->deadline, t->stallUntil));
          else if (t->stallUntil > K.now) upd(t->stallUntil);   // may become eligible through its predicate
        } else {
          upd(t->stallUntil);
        }
      }
      if (next < 0) abortRun("deadlock", threadDump());
      if (next <= K.now) next = K.now + 1;
      K.now = next;
      if (K.now > K.cfg.maxTime) abortRun("time-budget", "simulated time budget exceeded");
      continue;
    }
    size_t idx = 0;
    if (cand.size() > 1) {
      int n = static_cast<int>(cand.size());
      int curIdx = -1;
      for (int i = 0; i < n; i++) if (cand[i] == K.cur) curIdx = i;
      int def = curIdx >= 0 ? curIdx : 0;
      int choice = decide(n, def);
      K.ndecisions++;
      if (choice < 0) {
        switch (K.cfg.policy) {
          case POL_SEQ:
            choice = def;
            break;
          case POL_STARVE: {
            std::vector<int> ok;
            for (int i = 0; i < n; i++) {
              if (K.cfg.starveName.empty() || cand[i]->name.compare(0, K.cfg.starveName.size(), K.cfg.starveName) != 0) ok.push_back(i);
            }
            if (ok.empty()) choice = def;
            else if (curIdx >= 0 && std::find(ok.begin(), ok.end(), curIdx) != ok.end() && !K.srng.chance(K.cfg.switchP)) choice = curIdx;
            else choice = ok[K.srng.below(static_cast<uint32_t>(ok.size()))];
            break;
          }
          case POL_PCT: {
            for (uint64_t p : K.pctPoints) {
              if (p == K.ndecisions) {
                int hi = 0;
                for (int i = 1; i < n; i++) if (cand[i]->prio > cand[hi]->prio) hi = i;
                cand[hi]->prio = -static_cast<int64_t>(K.ndecisions);
              }
            }
            int hi = 0;
            for (int i = 1; i < n; i++) if (cand[i]->prio > cand[hi]->prio) hi = i;
            choice = hi;
            break;
          }
          default:
            if (curIdx >= 0 && !K.srng.chance(K.cfg.switchP)) choice = curIdx;
            else choice = static_cast<int>(K.srng.below(static_cast<uint32_t>(n)));
            break;
        }
      }
      K.recorded.push_back(choice);
      idx = static_cast<size_t>(choice);
    }
    SimThread* t = cand[idx];
    if (t->state == T_BLOCKED) {
      t->wokePred = via[idx] || (t->pred && (*t->pred)());
      t->state = T_RUNNABLE;
      t->pred = nullptr;
    }
    return t;
  }
}

void reschedule() {
  SimThread* me = K.cur;
  SimThread* next = pickNext();
  if (next == me) return;
  K.switches++;
  fold(0x5c0000 + static_cast<uint64_t>(next->tid));
  if (K.cfg.verbose) fprintf(stderr, "[%10.3f] switch T%d(%s) -> T%d(%s)\n", K.now / 1e6, me->tid, me->name.c_str(), next->tid, next->name.c_str());
  K.cur = next;
  sem_post(&next->sem);
  if (me->state != T_DONE) {
    while (sem_wait(&me->sem) != 0) {}
  }
}

// every intercepted call passes here first
inline void enter(const char* tag, uint64_t a = 0, uint64_t b = 0) {
  K.now += K.cfg.callCost;
  vtrace(tag, a, b);
  if (K.now > K.cfg.maxTime) abortRun("time-budget", "simulated time budget exceeded");
}

inline bool simCtx() { return K.active && !K.inEnv && !K.aborting; }

void maybeClobberErrno() {
  if (K.cfg.errnoP > 0 && K.frng.chance(K.cfg.errnoP)) {
    static const int vals[] = {ERANGE, EAGAIN, EINTR, EINVAL, ENOENT};
    errno = vals[K.frng.below(5)];
    K.counters["fault.errno_clobber"]++;
  }
}

void* trampoline(void* p) {
  SimThread* t = static_cast<SimThread*>(p);
  while (sem_wait(&t->sem) != 0) {}
  t->started = true;
  void* ret = nullptr;
  if (t->fn) ret = t->fn(t->arg); else t->sfn();
  t->state = T_DONE;
  vtrace("thread.exit", static_cast<uint64_t>(t->tid), 0);
  reschedule();
  return ret;
}

SimThread* newThread(const char* name) {
  auto* t = new SimThread();
  t->tid = static_cast<int>(K.threads.size());
  t->name = name ? name : "";
  sem_init(&t->sem, 0, 0);
  t->prio = 1000000 + static_cast<int64_t>(K.srng.below(1000000));
  K.threads.push_back(t);
  return t;
}

SimThread* byPthread(pthread_t p) {
  // pthread_t values are reused after a join: the newest thread with that value that has not been released is meant
  for (size_t i = K.threads.size(); i-- > 0;) {
    SimThread* t = K.threads[i];
    if (t->tid != 0 && !t->released && !(t->detached && t->state == T_DONE) && pthread_equal(t->real, p)) return t;
  }
  if (pthread_equal(K.threads[0]->real, p)) return K.threads[0];
  return nullptr;
}

ns_t absToNs(const struct timespec* ts) {
  return (static_cast<ns_t>(ts->tv_sec) - K.cfg.epoch) * SEC + ts->tv_nsec;
}

void fillTime(struct timespec* ts) {
  ts->tv_sec = static_cast<time_t>(K.cfg.epoch + K.now / SEC);
  ts->tv_nsec = static_cast<long>(K.now % SEC);
}

// ---- mutex / cond ----
void mutexAcquire(void* m, int count) {
  MutexState& st = K.mutexes[m];
  SimThread* me = K.cur;
  if (st.owner == me->tid) { st.count += count; return; }
  while (st.owner != -1) {
    std::function<bool()> pred = [m]() { return K.mutexes[m].owner == -1; };
    blockUntil(pred, -1, "mutex");
  }
  MutexState& st2 = K.mutexes[m];
  st2.owner = me->tid;
  st2.count = count;
}

}  // namespace

// ---- public kernel API ----
void kernelInit(const KConfig& cfg) {
  K.cfg = cfg;
  if (!getenv("SIM_TRACE")) K.cfg.verbose = false;
  K.srng = Rng(hcomb(cfg.seed, 0x5c4ed));
  K.frng = Rng(hcomb(cfg.seed, 0xfa017));
  K.now = 0;
  SimThread* t = newThread("main");
  t->real = pthread_self();
  t->started = true;
  K.cur = t;
  if (cfg.policy == POL_PCT) {
    for (int i = 0; i < cfg.pctDepth; i++) K.pctPoints.push_back(1 + K.srng.below(static_cast<uint32_t>(std::max<uint64_t>(cfg.pctSteps, 1))));
  }
  K.active = true;
}
bool kernelActive() { return K.active; }
ns_t now() { return K.now; }
int64_t epochSeconds() { return K.cfg.epoch + K.now / SEC; }
Rng& frng() { return K.frng; }
int currentTid() { return K.cur ? K.cur->tid : -1; }
const char* currentThreadName() { return K.cur ? K.cur->name.c_str() : "?"; }
uint64_t traceHash() { return K.hash; }
uint64_t steps() { return K.steps; }
uint64_t contextSwitches() { return K.switches; }
uint64_t decisions() { return K.ndecisions; }
const std::vector<int>& recordedSchedule() { return K.recorded; }
void count(const std::string& name, uint64_t n) { K.counters[name] += n; }
const std::map<std::string, uint64_t>& counters() { return K.counters; }
void trace(const char* tag, uint64_t a, uint64_t b) { vtrace(tag, a, b); }
void tracef(const char* tag, const char* fmt, ...) {
  char buf[512];
  va_list ap;
  va_start(ap, fmt);
  vsnprintf(buf, sizeof(buf), fmt, ap);
  va_end(ap);
  fold(hstr(tag)); fold(hstr(buf));
  if (K.cfg.verbose) fprintf(stderr, "[%10.3f] T%d %-14s %s\n", K.now / 1e6, K.cur ? K.cur->tid : -1, tag, buf);
}
void setAbortHandler(std::function<void(const char*, const std::string&)> h) { K.abortHandler = std::move(h); }
void abortRun(const char* verdict, const std::string& detail) {
  K.aborting = true;
  if (K.abortHandler) K.abortHandler(verdict, detail);
  fprintf(stderr, "simkernel abort: %s: %s\n", verdict, detail.c_str());
  _exit(3);
}
std::string threadDump() {
  std::string s;
  char buf[256];
  for (SimThread* t : K.threads) {
    snprintf(buf, sizeof(buf), "T%d(%s) %s%s%s deadline=%lld; ", t->tid, t->name.c_str(),
             t->state == T_DONE ? "done" : t->state == T_BLOCKED ? "blocked:" : "runnable",
             t->state == T_BLOCKED ? t->why : "", t == K.cur ? " [cur]" : "", static_cast<long long>(t->deadline));
    s += buf;
  }
  return s;
}

int threadSpawn(const char* name, std::function<void()> fn) {
  SimThread* t = newThread(name);
  t->sfn = std::move(fn);
  vtrace("thread.spawn", static_cast<uint64_t>(t->tid), 0);
  pthread_attr_t attr;
  pthread_attr_init(&attr);
  pthread_attr_setstacksize(&attr, 1 << 20);
  int r = __real_pthread_create(&t->real, &attr, trampoline, t);
  pthread_attr_destroy(&attr);
  if (r != 0) abortRun("infra", "pthread_create failed");
  return t->tid;
}

void threadJoin(int tid) {
  SimThread* t = K.threads[static_cast<size_t>(tid)];
  std::function<bool()> pred = [t]() { return t->state == T_DONE; };
  if (t->state != T_DONE) blockUntil(pred, -1, "join");
  __real_pthread_join(t->real, nullptr);
}

bool blockUntil(const std::function<bool()>& pred, ns_t deadline, const char* why) {
  SimThread* me = K.cur;
  if (K.inEnv) abortRun("infra", std::string("blocking call from environment context: ") + why);
  me->state = T_BLOCKED;
  me->pred = &pred;
  me->deadline = deadline;
  me->why = why;
  me->wokePred = false;
  reschedule();
  return me->wokePred;
}

void sleepFor(ns_t d) {
  std::function<bool()> never = []() { return false; };
  blockUntil(never, K.now + d, "sleep");
}

void yieldPoint(const char* why) {
  if (!simCtx()) return;
  enter(why);
  reschedule();
}

uint64_t eventAt(ns_t t, std::function<void()> f) {
  uint64_t id = ++K.eventSeq;
  if (t < K.now) t = K.now;
  K.events.push(Event{t, id, id});
  K.eventFns[id] = std::move(f);
  return id;
}
uint64_t eventAfter(ns_t d, std::function<void()> f) { return eventAt(K.now + d, std::move(f)); }
void eventCancel(uint64_t id) { K.eventFns.erase(id); }

void stallThread(const char* namePrefix, ns_t d) {
  size_t n = strlen(namePrefix);
  for (SimThread* t : K.threads) {
    if (t->state != T_DONE && t->name.compare(0, n, namePrefix) == 0) {
      t->stallUntil = std::max(t->stallUntil, K.now + d);
      K.counters["fault.thread_stall"]++;
    }
  }
}

// ---- fds ----
Stream* streamNew(const char* kind) {
  auto* s = new Stream();
  s->kind = kind;
  s->fd = FD_BASE + static_cast<int>(K.fds.size());
  FdEntry e;
  e.s = s;
  K.fds.push_back(e);
  return s;
}
static FdEntry* entry(int fd) {
  if (fd < FD_BASE || static_cast<size_t>(fd - FD_BASE) >= K.fds.size()) return nullptr;
  return &K.fds[static_cast<size_t>(fd - FD_BASE)];
}
Stream* streamGet(int fd) { FdEntry* e = entry(fd); return e ? e->s : nullptr; }
bool isSimFd(int fd) { return fd >= FD_BASE; }
void streamFeed(Stream* s, const uint8_t* data, size_t len) {
  for (size_t i = 0; i < len; i++) s->in.push_back(data[i]);
}
void streamFeed(Stream* s, const std::string& data) {
  streamFeed(s, reinterpret_cast<const uint8_t*>(data.data()), data.size());
}
Listener* listenerByPort(int port) {
  auto it = K.listeners.find(port);
  return it == K.listeners.end() ? nullptr : it->second;
}
Stream* netConnect(int port) {
  Listener* l = listenerByPort(port);
  if (!l || !l->listening) return nullptr;
  Stream* s = streamNew("sock");
  l->pending.push_back(s);
  return s;
}

static short streamRevents(Stream* s, short events) {
  short r = 0;
  if (s->appClosed) return POLLNVAL;
  if ((events & POLLIN) && (!s->in.empty() || s->eof)) r |= POLLIN;
  if ((events & POLLRDHUP) && s->eof) r |= POLLRDHUP;
  if (s->hup) r |= POLLHUP;
  if (s->err) r |= POLLERR;
  return r;
}

static int doPoll(struct pollfd* fds, nfds_t n, ns_t timeoutNs) {
  enter("poll", n, static_cast<uint64_t>(timeoutNs));
  // fault hooks first
  int earlyErrno = 0;
  bool earlyZero = false;
  for (nfds_t i = 0; i < n; i++) {
    FdEntry* e = entry(fds[i].fd);
    if (e && e->s && e->s->fault) {
      Stream* s = e->s;
      s->nPoll++;
      int f = s->fault('p', s->nIo++);
      if (f > 0) earlyErrno = f;
      else if (f == -1) earlyZero = true;
      else if (f == -2) s->hup = true;
      else if (f == -3) s->err = true;
    }
  }
  reschedule();
  if (earlyErrno) {
    for (nfds_t i = 0; i < n; i++) {
      FdEntry* e = entry(fds[i].fd);
      if (e && e->s && e->s->onPoll) { K.inEnv = true; e->s->onPoll(-1, timeoutNs, 0); K.inEnv = false; }
    }
    errno = earlyErrno;
    return -1;
  }
  auto compute = [fds, n]() {
    int cnt = 0;
    for (nfds_t i = 0; i < n; i++) {
      fds[i].revents = 0;
      FdEntry* e = entry(fds[i].fd);
      if (!e) { fds[i].revents = POLLNVAL; cnt++; continue; }
      short r = 0;
      if (e->s) r = streamRevents(e->s, fds[i].events);
      else if (e->l) r = (fds[i].events & POLLIN) && !e->l->pending.empty() ? POLLIN : 0;
      fds[i].revents = r;
      if (r) cnt++;
    }
    return cnt;
  };
  ns_t pollStart = K.now;
  auto notify = [fds, n, timeoutNs, pollStart](int ret) {
    for (nfds_t i = 0; i < n; i++) {
      FdEntry* e = entry(fds[i].fd);
      if (e && e->s && e->s->onPoll) {
        K.inEnv = true;
        e->s->onPoll(ret, timeoutNs, K.now - pollStart);
        K.inEnv = false;
      }
    }
  };
  int cnt = compute();
  if (cnt > 0 || timeoutNs == 0 || earlyZero) {
    if (cnt == 0) for (nfds_t i = 0; i < n; i++) fds[i].revents = 0;
    vtrace("poll.ret", static_cast<uint64_t>(cnt), 0);
    notify(cnt);
    return cnt;
  }
  std::function<bool()> pred = [&compute]() { return compute() > 0; };
  blockUntil(pred, timeoutNs < 0 ? -1 : K.now + timeoutNs, "poll");
  cnt = compute();
  vtrace("poll.ret", static_cast<uint64_t>(cnt), 1);
  notify(cnt);
  if (cnt == 0) maybeClobberErrno();
  return cnt;
}

static ssize_t doRead(Stream* s, void* buf, size_t n) {
  enter("read", static_cast<uint64_t>(s->fd), n);
  s->nRead++;
  int f = s->fault ? s->fault('r', s->nIo++) : 0;
  reschedule();
  if (s->appClosed) { errno = EBADF; return -1; }
  if (f > 0) { errno = f; return -1; }
  if (f == -1) return 0;
  if (s->err) { errno = EIO; return -1; }
  if (s->in.empty() && !s->eof) {
    if (s->nonblock) { errno = EAGAIN; return -1; }
    std::function<bool()> pred = [s]() { return !s->in.empty() || s->eof || s->err || s->appClosed; };
    blockUntil(pred, -1, "read");
    if (s->appClosed) { errno = EBADF; return -1; }
    if (s->err && s->in.empty()) { errno = EIO; return -1; }
  }
  if (s->in.empty()) return 0;  // eof
  size_t k = std::min(n, s->in.size());
  if (s->readLimit) {
    size_t lim = s->readLimit(s->in.size(), n);
    if (lim < 1) lim = 1;
    if (lim < k) k = lim;
  }
  uint8_t* out = static_cast<uint8_t*>(buf);
  uint64_t h = 0;
  for (size_t i = 0; i < k; i++) { out[i] = s->in.front(); s->in.pop_front(); h = h * 257 + out[i]; }
  vtrace("read.ret", k, h);
  if (s->onRead) {
    K.inEnv = true;
    s->onRead(out, k);
    K.inEnv = false;
  }
  maybeClobberErrno();
  return static_cast<ssize_t>(k);
}

static ssize_t doWrite(Stream* s, const void* buf, size_t n) {
  const uint8_t* p = static_cast<const uint8_t*>(buf);
  uint64_t h = 0;
  for (size_t i = 0; i < n; i++) h = h * 257 + p[i];
  enter("write", static_cast<uint64_t>(s->fd), h);
  s->nWrite++;
  int f = s->fault ? s->fault('w', s->nIo++) : 0;
  reschedule();
  if (s->appClosed) { errno = EBADF; return -1; }
  if (f > 0) { errno = f; return -1; }
  if (f == -1) return 0;
  if (s->err) { errno = EIO; return -1; }
  if (s->eof || s->hup) { errno = EPIPE; return -1; }
  if (s->peer) {
    streamFeed(s->peer, p, n);
  }
  if (s->onWrite) {
    K.inEnv = true;
    s->onWrite(p, n);
    K.inEnv = false;
  }
  maybeClobberErrno();
  return static_cast<ssize_t>(n);
}

}  // namespace sim

// =====================================================================================
// --wrap entry points
// =====================================================================================
using namespace sim;

extern "C" {

int __wrap_pthread_create(pthread_t* th, const pthread_attr_t* attr, void* (*fn)(void*), void* arg) {
  if (!simCtx()) return __real_pthread_create(th, attr, fn, arg);
  enter("pthread_create");
  SimThread* t = newThread("thread");
  t->fn = fn;
  t->arg = arg;
  int r = __real_pthread_create(&t->real, attr, trampoline, t);
  if (r != 0) { t->state = T_DONE; return r; }
  *th = t->real;
  reschedule();
  return 0;
}

int __wrap_pthread_join(pthread_t th, void** ret) {
  if (!simCtx()) return __real_pthread_join(th, ret);
  enter("pthread_join");
  SimThread* t = byPthread(th);
  if (!t) return ESRCH;
  if (t->state != T_DONE) {
    std::function<bool()> pred = [t]() { return t->state == T_DONE; };
    blockUntil(pred, -1, "join");
  } else {
    reschedule();
  }
  int r = __real_pthread_join(th, ret);
  t->released = true;
  return r;
}

int __wrap_pthread_detach(pthread_t th) {
  if (simCtx()) { SimThread* t = byPthread(th); if (t) t->detached = true; }
  return __real_pthread_detach(th);
}

int __wrap_pthread_cancel(pthread_t th) {
  if (!simCtx()) return __real_pthread_cancel(th);
  enter("pthread_cancel");
  SimThread* t = byPthread(th);
  if (t && t->state != T_DONE && t != K.cur) {
    // the simulated thread is never scheduled again; its real thread stays parked until the process exits
    t->state = T_DONE;
    K.counters["thread_cancelled"]++;
  }
  return 0;
}

int __wrap_pthread_setname_np(pthread_t th, const char* name) {
  if (!K.active) return __real_pthread_setname_np(th, name);
  SimThread* t = byPthread(th);
  if (t && name) t->name = name;
  return 0;
}

int __wrap_pthread_mutex_init(pthread_mutex_t* m, const pthread_mutexattr_t* a) {
  if (K.active) K.mutexes.erase(m);
  return __real_pthread_mutex_init(m, a);
}
int __wrap_pthread_mutex_destroy(pthread_mutex_t* m) {
  if (K.active) K.mutexes.erase(m);
  return __real_pthread_mutex_destroy(m);
}
int __wrap_pthread_mutex_lock(pthread_mutex_t* m) {
  if (!simCtx()) return K.active ? 0 : __real_pthread_mutex_lock(m);
  enter("mutex_lock");
  reschedule();
  mutexAcquire(m, 1);
  return 0;
}
int __wrap_pthread_mutex_trylock(pthread_mutex_t* m) {
  if (!simCtx()) return K.active ? 0 : __real_pthread_mutex_trylock(m);
  enter("mutex_trylock");
  reschedule();
  MutexState& st = K.mutexes[m];
  if (st.owner == -1 || st.owner == K.cur->tid) { st.owner = K.cur->tid; st.count++; return 0; }
  return EBUSY;
}
int __wrap_pthread_mutex_unlock(pthread_mutex_t* m) {
  if (!simCtx()) return K.active ? 0 : __real_pthread_mutex_unlock(m);
  enter("mutex_unlock");
  MutexState& st = K.mutexes[m];
  if (st.owner == K.cur->tid) {
    if (--st.count <= 0) { st.owner = -1; st.count = 0; }
  }
  reschedule();
  return 0;
}
int __wrap_pthread_cond_init(pthread_cond_t* c, const pthread_condattr_t* a) {
  if (K.active) K.conds.erase(c);
  return __real_pthread_cond_init(c, a);
}
int __wrap_pthread_cond_destroy(pthread_cond_t* c) {
  if (K.active) K.conds.erase(c);
  return __real_pthread_cond_destroy(c);
}

static int condWait(pthread_cond_t* c, pthread_mutex_t* m, ns_t deadline) {
  MutexState& st = K.mutexes[m];
  int saved = st.owner == K.cur->tid ? st.count : 0;
  if (st.owner == K.cur->tid) { st.owner = -1; st.count = 0; }
  Waiter w{K.cur->tid, false};
  K.conds[c].waiters.push_back(&w);
  ns_t spuriousAt = -1;
  if (K.cfg.spuriousP > 0 && K.frng.chance(K.cfg.spuriousP)) {
    spuriousAt = K.now + static_cast<ns_t>(K.frng.below(50000)) * US;
  }
  ns_t eff = deadline;
  if (spuriousAt >= 0 && (eff < 0 || spuriousAt < eff)) eff = spuriousAt;
  std::function<bool()> pred = [&w]() { return w.signalled; };
  blockUntil(pred, eff, "cond");
  int ret = 0;
  if (!w.signalled) {
    auto& ws = K.conds[c].waiters;
    ws.erase(std::remove(ws.begin(), ws.end(), &w), ws.end());
    if (deadline >= 0 && K.now >= deadline) ret = ETIMEDOUT;
    else K.counters["fault.spurious_wakeup"]++;
  }
  mutexAcquire(m, saved > 0 ? saved : 1);
  return ret;
}

int __wrap_pthread_cond_wait(pthread_cond_t* c, pthread_mutex_t* m) {
  if (!simCtx()) return K.active ? 0 : __real_pthread_cond_wait(c, m);
  enter("cond_wait");
  return condWait(c, m, -1);
}
int __wrap_pthread_cond_timedwait(pthread_cond_t* c, pthread_mutex_t* m, const struct timespec* abstime) {
  if (!simCtx()) return K.active ? ETIMEDOUT : __real_pthread_cond_timedwait(c, m, abstime);
  enter("cond_timedwait");
  return condWait(c, m, absToNs(abstime));
}
int __wrap_pthread_cond_signal(pthread_cond_t* c) {
  if (!simCtx()) return K.active ? 0 : __real_pthread_cond_signal(c);
  enter("cond_signal");
  auto& ws = K.conds[c].waiters;
  if (!ws.empty()) {
    size_t idx = 0;
    if (ws.size() > 1) {
      int n = static_cast<int>(ws.size());
      int choice = decide(n, 0);
      K.ndecisions++;
      if (choice < 0) choice = static_cast<int>(K.srng.below(static_cast<uint32_t>(n)));
      K.recorded.push_back(choice);
      idx = static_cast<size_t>(choice);
    }
    ws[idx]->signalled = true;
    ws.erase(ws.begin() + static_cast<long>(idx));
  }
  reschedule();
  return 0;
}
int __wrap_pthread_cond_broadcast(pthread_cond_t* c) {
  if (!simCtx()) return K.active ? 0 : __real_pthread_cond_broadcast(c);
  enter("cond_broadcast");
  auto& ws = K.conds[c].waiters;
  for (Waiter* w : ws) w->signalled = true;
  ws.clear();
  reschedule();
  return 0;
}

time_t __wrap_time(time_t* t) {
  if (!K.active) return __real_time(t);
  if (simCtx()) { enter("time"); reschedule(); }
  time_t v = static_cast<time_t>(K.cfg.epoch + K.now / SEC);
  if (t) *t = v;
  return v;
}
int __wrap_clock_gettime(clockid_t clk, struct timespec* ts) {
  if (!K.active) return __real_clock_gettime(clk, ts);
  if (simCtx()) { enter("clock_gettime"); reschedule(); }
  fillTime(ts);
  return 0;
}
int __wrap_gettimeofday(struct timeval* tv, void* tz) {
  if (!K.active) return __real_gettimeofday(tv, tz);
  if (simCtx()) { enter("gettimeofday"); reschedule(); }
  struct timespec ts;
  fillTime(&ts);
  tv->tv_sec = ts.tv_sec;
  tv->tv_usec = ts.tv_nsec / 1000;
  return 0;
}
int __wrap_usleep(useconds_t us) {
  if (!simCtx()) return K.active ? 0 : __real_usleep(us);
  enter("usleep", us);
  sleepFor(static_cast<ns_t>(us) * US);
  return 0;
}
int __wrap_nanosleep(const struct timespec* req, struct timespec* rem) {
  if (!simCtx()) return K.active ? 0 : __real_nanosleep(req, rem);
  enter("nanosleep");
  sleepFor(static_cast<ns_t>(req->tv_sec) * SEC + req->tv_nsec);
  if (rem) { rem->tv_sec = 0; rem->tv_nsec = 0; }
  return 0;
}
unsigned int __wrap_sleep(unsigned int s) {
  if (!simCtx()) return K.active ? 0 : __real_sleep(s);
  enter("sleep", s);
  sleepFor(static_cast<ns_t>(s) * SEC);
  return 0;
}

ssize_t __wrap_read(int fd, void* buf, size_t n) {
  if (!K.active || !isSimFd(fd)) return __real_read(fd, buf, n);
  FdEntry* e = entry(fd);
  if (!e || !e->s) { errno = EBADF; return -1; }
  if (!simCtx()) abortRun("infra", "read on sim fd from environment context");
  return doRead(e->s, buf, n);
}
ssize_t __wrap_recv(int fd, void* buf, size_t n, int flags) {
  if (!K.active || !isSimFd(fd)) return __real_recv(fd, buf, n, flags);
  return __wrap_read(fd, buf, n);
}
ssize_t __wrap_write(int fd, const void* buf, size_t n) {
  if (!K.active || !isSimFd(fd)) return __real_write(fd, buf, n);
  FdEntry* e = entry(fd);
  if (!e || !e->s) { errno = EBADF; return -1; }
  if (!simCtx()) abortRun("infra", "write on sim fd from environment context");
  return doWrite(e->s, buf, n);
}
ssize_t __wrap_send(int fd, const void* buf, size_t n, int flags) {
  if (!K.active || !isSimFd(fd)) return __real_send(fd, buf, n, flags);
  return __wrap_write(fd, buf, n);
}
int __wrap_close(int fd) {
  if (!K.active || !isSimFd(fd)) return __real_close(fd);
  FdEntry* e = entry(fd);
  if (!e) { errno = EBADF; return -1; }
  if (simCtx()) enter("close", static_cast<uint64_t>(fd));
  if (e->s) {
    if (e->s->appClosed) { errno = EBADF; return -1; }
    e->s->appClosed = true;
    if (e->s->peer) e->s->peer->eof = true;
    if (e->s->onClose) {
      bool was = K.inEnv;
      K.inEnv = true;
      e->s->onClose();
      K.inEnv = was;
    }
  } else if (e->l) {
    e->l->listening = false;
    K.listeners.erase(e->l->port);
  }
  if (simCtx()) reschedule();
  return 0;
}
int __wrap_ppoll(struct pollfd* fds, nfds_t n, const struct timespec* tmo, const sigset_t* ss) {
  bool anySim = false;
  for (nfds_t i = 0; i < n; i++) if (isSimFd(fds[i].fd)) anySim = true;
  if (!K.active || !anySim) return __real_ppoll(fds, n, tmo, ss);
  if (!simCtx()) abortRun("infra", "ppoll from environment context");
  ns_t t = tmo ? static_cast<ns_t>(tmo->tv_sec) * SEC + tmo->tv_nsec : -1;
  return doPoll(fds, n, t);
}
int __wrap_poll(struct pollfd* fds, nfds_t n, int timeoutMs) {
  bool anySim = false;
  for (nfds_t i = 0; i < n; i++) if (isSimFd(fds[i].fd)) anySim = true;
  if (!K.active || !anySim) return __real_poll(fds, n, timeoutMs);
  if (!simCtx()) abortRun("infra", "poll from environment context");
  return doPoll(fds, n, timeoutMs < 0 ? -1 : static_cast<ns_t>(timeoutMs) * MS);
}
int __wrap_ioctl(int fd, unsigned long req, ...) {
  va_list ap;
  va_start(ap, req);
  void* arg = va_arg(ap, void*);
  va_end(ap);
  if (!K.active || !isSimFd(fd)) return __real_ioctl(fd, req, arg);
  FdEntry* e = entry(fd);
  if (!e || !e->s || e->s->appClosed) { errno = EBADF; return -1; }
  if (simCtx()) { enter("ioctl", static_cast<uint64_t>(fd), req); reschedule(); }
  if (req == FIONREAD) {
    if (e->s->err || e->s->hup) { errno = EIO; return -1; }
    *static_cast<int*>(arg) = static_cast<int>(e->s->in.size());
    return 0;
  }
  errno = ENOTTY;
  return -1;
}
int __wrap_fcntl(int fd, int cmd, ...) {
  va_list ap;
  va_start(ap, cmd);
  long arg = va_arg(ap, long);
  va_end(ap);
  if (!K.active || !isSimFd(fd)) return __real_fcntl(fd, cmd, arg);
  FdEntry* e = entry(fd);
  if (!e) { errno = EBADF; return -1; }
  if (e->s) {
    if (e->s->appClosed) { errno = EBADF; return -1; }
    if (cmd == F_GETFL) return O_RDWR | (e->s->nonblock ? O_NONBLOCK : 0);
    if (cmd == F_SETFL) { e->s->nonblock = (arg & O_NONBLOCK) != 0; return 0; }
    return 0;
  }
  if (cmd == F_GETFL) return O_RDWR;
  return 0;
}
int __wrap_shutdown(int fd, int how) {
  if (!K.active || !isSimFd(fd)) return __real_shutdown(fd, how);
  FdEntry* e = entry(fd);
  if (!e || !e->s || e->s->appClosed) { errno = EBADF; return -1; }
  if (simCtx()) { enter("shutdown", static_cast<uint64_t>(fd)); reschedule(); }
  e->s->rdShutdown = true;
  return 0;
}
int __wrap_pipe(int p[2]) {
  if (!K.active) return __real_pipe(p);
  Stream* r = streamNew("pipe");
  Stream* w = streamNew("pipe");
  w->peer = r;
  p[0] = r->fd;
  p[1] = w->fd;
  return 0;
}
int __wrap_socket(int domain, int type, int proto) {
  if (!K.active) return __real_socket(domain, type, proto);
  auto* l = new Listener();
  l->fd = FD_BASE + static_cast<int>(K.fds.size());
  FdEntry e;
  e.l = l;
  K.fds.push_back(e);
  if (simCtx()) { enter("socket"); reschedule(); }
  return l->fd;
}
int __wrap_bind(int fd, const struct sockaddr* addr, socklen_t len) {
  if (!K.active || !isSimFd(fd)) return __real_bind(fd, addr, len);
  FdEntry* e = entry(fd);
  if (!e || !e->l) { errno = EBADF; return -1; }
  const struct sockaddr_in* in = reinterpret_cast<const struct sockaddr_in*>(addr);
  e->l->port = ntohs(in->sin_port);
  if (K.listeners.count(e->l->port)) { errno = EADDRINUSE; return -1; }
  return 0;
}
int __wrap_listen(int fd, int backlog) {
  if (!K.active || !isSimFd(fd)) return __real_listen(fd, backlog);
  FdEntry* e = entry(fd);
  if (!e || !e->l) { errno = EBADF; return -1; }
  e->l->listening = true;
  K.listeners[e->l->port] = e->l;
  return 0;
}
int __wrap_accept(int fd, struct sockaddr* addr, socklen_t* len) {
  if (!K.active || !isSimFd(fd)) return __real_accept(fd, addr, len);
  FdEntry* e = entry(fd);
  if (!e || !e->l) { errno = EBADF; return -1; }
  if (!simCtx()) abortRun("infra", "accept from environment context");
  enter("accept", static_cast<uint64_t>(fd));
  Listener* l = e->l;
  reschedule();
  if (l->pending.empty()) {
    std::function<bool()> pred = [l]() { return !l->pending.empty() || !l->listening; };
    blockUntil(pred, -1, "accept");
  }
  if (l->pending.empty()) { errno = EBADF; return -1; }
  Stream* s = l->pending.front();
  l->pending.pop_front();
  if (addr && len && *len >= sizeof(struct sockaddr_in)) {
    struct sockaddr_in* in = reinterpret_cast<struct sockaddr_in*>(addr);
    memset(in, 0, sizeof(*in));
    in->sin_family = AF_INET;
    in->sin_port = htons(static_cast<uint16_t>(40000 + (s->fd % 20000)));
    in->sin_addr.s_addr = htonl(0x7f000001);
    *len = sizeof(*in);
  }
  return s->fd;
}
int __wrap_connect(int fd, const struct sockaddr* addr, socklen_t len) {
  if (!K.active || !isSimFd(fd)) return __real_connect(fd, addr, len);
  errno = ECONNREFUSED;
  return -1;
}
int __wrap_setsockopt(int fd, int level, int opt, const void* val, socklen_t len) {
  if (!K.active || !isSimFd(fd)) return __real_setsockopt(fd, level, opt, val, len);
  return 0;
}

}  // extern "C"
