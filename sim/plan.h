// Plan text: one item per line, "kind sub key=value key=value ...".  A plan plus the kernel seed and the
// (optional) schedule list is one exactly repeatable execution; replay files are plan text with a header.
#ifndef VERIF_PLAN_H_
#define VERIF_PLAN_H_

#include <stdint.h>
#include <stdlib.h>
#include <map>
#include <sstream>
#include <string>
#include <vector>

namespace plan {

struct Line {
  std::string kind, sub;
  std::map<std::string, std::string> kv;
  std::string get(const std::string& k, const std::string& def = "") const {
    auto it = kv.find(k);
    return it == kv.end() ? def : it->second;
  }
  long long num(const std::string& k, long long def = 0) const {
    auto it = kv.find(k);
    return it == kv.end() || it->second.empty() ? def : strtoll(it->second.c_str(), nullptr, 0);
  }
  double real(const std::string& k, double def = 0) const {
    auto it = kv.find(k);
    return it == kv.end() || it->second.empty() ? def : strtod(it->second.c_str(), nullptr);
  }
  bool has(const std::string& k) const { return kv.count(k) != 0; }
  std::string str() const {
    std::string s = kind;
    if (!sub.empty()) s += " " + sub;
    for (auto& p : kv) s += " " + p.first + "=" + p.second;
    return s;
  }
};

inline bool parseLine(const std::string& text, Line* out) {
  std::istringstream is(text);
  std::string tok;
  out->kind.clear(); out->sub.clear(); out->kv.clear();
  int n = 0;
  while (is >> tok) {
    size_t eq = tok.find('=');
    if (eq != std::string::npos && n >= 1) {
      out->kv[tok.substr(0, eq)] = tok.substr(eq + 1);
    } else if (n == 0) {
      out->kind = tok;
    } else if (out->sub.empty()) {
      out->sub = tok;
    }
    n++;
  }
  return !out->kind.empty() && out->kind[0] != '#';
}

struct Plan {
  std::vector<Line> lines;
  std::string text() const {
    std::string s;
    for (auto& l : lines) s += l.str() + "\n";
    return s;
  }
  void add(const std::string& t) {
    Line l;
    if (parseLine(t, &l)) lines.push_back(l);
  }
  static Plan parse(const std::string& text) {
    Plan p;
    std::istringstream is(text);
    std::string line;
    while (std::getline(is, line)) p.add(line);
    return p;
  }
  // merged view of all "cfg" lines
  Line cfg() const {
    Line c;
    c.kind = "cfg";
    for (auto& l : lines) if (l.kind == "cfg") for (auto& p : l.kv) c.kv[p.first] = p.second;
    return c;
  }
};

}  // namespace plan

#endif  // VERIF_PLAN_H_
