# /verif build entry points
setup:
	python3 tools/build.py san

fast:
	python3 tools/build.py fast

clean:
	rm -rf build

.PHONY: setup fast clean determinism mutants

determinism:
	python3 tools/determinism.py 200

mutants:
	tools/mutants_all.sh 0.5
