# /verif build entry points
setup:
	python3 tools/build.py san

fast:
	python3 tools/build.py fast

clean:
	rm -rf build

.PHONY: setup fast clean
