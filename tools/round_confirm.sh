#!/bin/bash
# usage: tools/round_confirm.sh <workdir> <PROP> [scale]
# For the sub-agent deliveries <workdir>/out/<PROP>-{a,b}: confirms each one in the scratch worktree <workdir>/<PROP>
# (demo passes on the clean tree, patch applies, builds, ctest passes, demo fails with the patch) and then runs the
# property's quick check against the patched worktree from a scratch copy of /verif (so /repo itself is never touched
# and several properties can be processed in parallel). Writes <workdir>/out/<PROP>-x/result.txt.
W=$1; P=$2; SCALE=${3:-0.3}
WT=$W/$P
V=$W/v-$P
mkdir -p $V
rsync -a --delete --exclude build --exclude replays --exclude 'evidence*' --exclude seeded --exclude .git /verif/ $V/
mkdir -p $V/build $V/replays $V/evidence
for x in a b; do
  D=$W/out/$P-$x
  [ -f $D/patch.diff ] || continue
  git -C $WT checkout -- . 2>/dev/null
  ( cd $D && timeout 900 bash ./confirm_cmd.sh > $D/run-clean.log 2>&1 ); rc0=$?
  if ! git -C $WT apply $D/patch.diff 2> $D/apply.log; then echo "$P-$x patch-does-not-apply" > $D/result.txt; continue; fi
  cmake --build $WT/_build -j6 > $D/build.log 2>&1; brc=$?
  tests=$(ctest --test-dir $WT/_build -j4 2>&1 | grep "tests passed" | tr -d '\n')
  ( cd $D && timeout 900 bash ./confirm_cmd.sh > $D/run-mutant.log 2>&1 ); rc1=$?
  ( cd $V && VERIF_REPO=$WT VERIF_SCRATCH=$V/build/scratch VERIF_REPLAY_DIR=$V/replays VERIF_EVIDENCE_DIR=$V/evidence VERIF_SCALE=$SCALE timeout 3000 ./check $P quick > $D/check.out 2> $D/check.err ); crc=$?
  viol=$(grep '^violation:' $D/check.err | sed 's/^violation: //' | cut -d';' -f1 | cut -c1-160 | head -4 | tr '\n' '|')
  git -C $WT checkout -- .
  echo "$P-$x demo_without=$rc0 demo_with=$rc1 build=$brc tests=[$tests] check_exit=$crc $viol" > $D/result.txt
done
cat $W/out/$P-*/result.txt
