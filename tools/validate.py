#!/usr/bin/env python3
"""validate MANIFEST.json and all evidence files against the schemas (needs the tooling venv: python3-vt)."""
import glob, json, sys
import jsonschema
ok = True
m = json.load(open('/verif/MANIFEST.json'))
jsonschema.validate(m, json.load(open('/root/.vp/MANIFEST.schema.json')))
print('manifest ok: %d checks, %d not applicable' % (len(m['checks']), len(m.get('not_applicable', []))))
es = json.load(open('/root/.vp/EVIDENCE.schema.json'))
for f in sorted(glob.glob('/verif/evidence/*.json')):
    try:
        jsonschema.validate(json.load(open(f)), es)
        print('evidence ok', f)
    except Exception as e:
        ok = False
        print('EVIDENCE INVALID', f, str(e)[:300])
sys.exit(0 if ok else 1)
