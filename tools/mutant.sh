#!/bin/sh
# usage: tools/mutant.sh <patch.diff> <property> [scale]
# applies the patch to /repo, runs the property's quick check, reverts the patch. Never commits anything.
PATCH=$1; PROP=$2; SCALE=${3:-0.3}
cd /verif || exit 2
git -C /repo diff --quiet || { echo "/repo has uncommitted changes"; exit 2; }
git -C /repo apply "$PATCH" || { echo "patch does not apply"; exit 2; }
mkdir -p /verif/build/mutant-replays
VERIF_SCALE=$SCALE ./check "$PROP" quick > /verif/build/mutant.out 2> /verif/build/mutant.err
RC=$?
git -C /repo checkout -- .
grep '^VIOLATION\|^KNOWN' /verif/build/mutant.out | sort | uniq -c | head -5
grep '^violation:' /verif/build/mutant.err | cut -c1-250 | head -8
tail -1 /verif/build/mutant.err | cut -c1-250
echo "exit=$RC"
# replay files produced for a mutant are not findings about the unchanged tree
git -C /verif status --porcelain replays | awk '{print $2}' | while read f; do mv "/verif/$f" /verif/build/mutant-replays/ 2>/dev/null; done
exit 0
