#!/bin/sh
# usage: tools/mutant.sh <patch.diff> <property> [scale]
# applies the patch to /repo, runs the property's quick check, reverts the patch. Never commits anything;
# replay and evidence files of such a run go to /verif/build/mutant-*, not to the committed directories.
PATCH=$1; PROP=$2; SCALE=${3:-0.3}
cd /verif || exit 2
git -C /repo diff --quiet || { echo "/repo has uncommitted changes"; exit 2; }
git -C /repo apply "$PATCH" || { echo "patch does not apply"; exit 2; }
mkdir -p /verif/build/mutant-replays /verif/build/mutant-evidence
VERIF_REPLAY_DIR=/verif/build/mutant-replays VERIF_EVIDENCE_DIR=/verif/build/mutant-evidence VERIF_SCALE=$SCALE ./check "$PROP" quick > /verif/build/mutant.out 2> /verif/build/mutant.err
RC=$?
git -C /repo checkout -- .
grep '^violation:' /verif/build/mutant.err | cut -c1-250 | head -8
tail -1 /verif/build/mutant.err | cut -c1-250
echo "exit=$RC"
exit 0
