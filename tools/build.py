#!/usr/bin/env python3
"""Content-hash based incremental build of the simulation binary.

Compiles the sources of /repo's *current working tree* (with /verif/sim/config.h) and the simulator
sources under /verif/sim into /verif/build/<flavour>/ and links /verif/build/<flavour>/simrun with
-Wl,--wrap=<sym> for every intercepted libc/pthread symbol.

Staleness is decided by the sha1 of every file an object depends on (from the compiler's -MMD output),
never by mtime.  An exclusive flock serialises concurrent builds.
"""
import fcntl
import hashlib
import json
import os
import subprocess
import sys
import time
from concurrent.futures import ThreadPoolExecutor

VERIF = os.path.dirname(os.path.dirname(os.path.abspath(__file__)))
REPO = os.environ.get("VERIF_REPO", "/repo")
GUARD = "EBUSD_VERIF"

REPO_SOURCES = [
    "src/lib/utils/arg.cpp", "src/lib/utils/clock.cpp", "src/lib/utils/httpclient.cpp", "src/lib/utils/log.cpp",
    "src/lib/utils/rotatefile.cpp", "src/lib/utils/tcpsocket.cpp", "src/lib/utils/thread.cpp",
    "src/lib/ebus/data.cpp", "src/lib/ebus/datatype.cpp", "src/lib/ebus/device_trans.cpp",
    "src/lib/ebus/filereader.cpp", "src/lib/ebus/message.cpp", "src/lib/ebus/protocol.cpp",
    "src/lib/ebus/protocol_direct.cpp", "src/lib/ebus/result.cpp", "src/lib/ebus/stringhelper.cpp",
    "src/lib/ebus/symbol.cpp", "src/lib/ebus/transport.cpp",
    "src/lib/ebus/contrib/contrib.cpp", "src/lib/ebus/contrib/tem.cpp",
    "src/ebusd/bushandler.cpp", "src/ebusd/datahandler.cpp", "src/ebusd/main_args.cpp", "src/ebusd/mainloop.cpp",
    "src/ebusd/mqtthandler.cpp", "src/ebusd/network.cpp", "src/ebusd/request.cpp", "src/ebusd/scan.cpp",
]

WRAPS = """pthread_create pthread_join pthread_detach pthread_cancel pthread_setname_np
pthread_mutex_init pthread_mutex_destroy pthread_mutex_lock pthread_mutex_trylock pthread_mutex_unlock
pthread_cond_init pthread_cond_destroy pthread_cond_wait pthread_cond_timedwait pthread_cond_signal pthread_cond_broadcast
time clock_gettime gettimeofday usleep nanosleep sleep
read write close ppoll poll ioctl fcntl recv send shutdown pipe socket bind listen accept connect setsockopt""".split()

FLAVOURS = {
    "san": ["-O1", "-g", "-fsanitize=address,undefined", "-fno-omit-frame-pointer", "-fno-sanitize-recover=all"],
    "fast": ["-O2", "-g"],
}


def sha1(path):
    h = hashlib.sha1()
    try:
        with open(path, "rb") as f:
            h.update(f.read())
    except OSError:
        return None
    return h.hexdigest()


def parse_deps(dfile):
    try:
        txt = open(dfile).read()
    except OSError:
        return None
    txt = txt.replace("\\\n", " ")
    parts = txt.split(":", 1)
    if len(parts) != 2:
        return None
    return [p for p in parts[1].split() if p]


def needs_build(obj, stamp, cmdkey):
    if not os.path.exists(obj):
        return True
    try:
        st = json.load(open(stamp))
    except (OSError, ValueError):
        return True
    if st.get("cmd") != cmdkey:
        return True
    for dep, h in st.get("deps", {}).items():
        if sha1(dep) != h:
            return True
    return False


def compile_one(job):
    src, obj, cmd = job
    stamp = obj + ".stamp"
    dfile = obj[:-2] + ".d"
    cmdkey = " ".join(cmd)
    if not needs_build(obj, stamp, cmdkey):
        return (src, True, "", False)
    os.makedirs(os.path.dirname(obj), exist_ok=True)
    p = subprocess.run(cmd + ["-MMD", "-MF", dfile, "-c", src, "-o", obj], capture_output=True, text=True)
    if p.returncode != 0:
        try:
            os.unlink(obj)
        except OSError:
            pass
        return (src, False, p.stderr, True)
    deps = parse_deps(dfile) or [src]
    # only track files that can change: the repo tree and /verif/sim (system headers are fixed in this sandbox)
    tracked = {}
    for d in deps:
        ad = os.path.abspath(d)
        if ad.startswith(REPO + "/") or ad.startswith(VERIF + "/"):
            tracked[ad] = sha1(ad)
    json.dump({"cmd": cmdkey, "deps": tracked}, open(stamp, "w"))
    return (src, True, p.stderr, True)


def build(flavour="san", quiet=False):
    t0 = time.time()
    bdir = os.path.join(VERIF, "build", flavour)
    os.makedirs(bdir, exist_ok=True)
    lock = open(os.path.join(VERIF, "build", ".lock"), "w")
    fcntl.flock(lock, fcntl.LOCK_EX)
    try:
        flags = FLAVOURS[flavour]
        common = ["-D_GNU_SOURCE", "-DHAVE_CONFIG_H", "-D" + GUARD, "-I", os.path.join(VERIF, "sim"),
                  "-I", os.path.join(REPO, "src"), "-pthread", "-w"]
        jobs = []
        objs = []
        for s in REPO_SOURCES:
            src = os.path.join(REPO, s)
            obj = os.path.join(bdir, "repo", s.replace("/", "_")[:-4] + ".o")
            jobs.append((src, obj, ["g++", "-std=gnu++11"] + flags + common))
            objs.append(obj)
        simdir = os.path.join(VERIF, "sim")
        for f in sorted(os.listdir(simdir)):
            if f.endswith(".cpp"):
                src = os.path.join(simdir, f)
                obj = os.path.join(bdir, "sim", f[:-4] + ".o")
                jobs.append((src, obj, ["g++", "-std=gnu++17"] + flags + common))
                objs.append(obj)
        with ThreadPoolExecutor(max_workers=os.cpu_count() or 4) as ex:
            results = list(ex.map(compile_one, jobs))
        failed = [r for r in results if not r[1]]
        if failed:
            for src, ok, err, _ in failed:
                sys.stderr.write("BUILD FAILED: %s\n%s\n" % (src, err))
            return None
        rebuilt = [r[0] for r in results if r[3]]
        exe = os.path.join(bdir, "simrun")
        linkcmd = ["g++"] + flags + ["-pthread", "-o", exe] + objs + ["-Wl," + ",".join("--wrap=" + w for w in WRAPS)]
        lstamp = exe + ".stamp"
        objhash = hashlib.sha1(("".join(sha1(o) or "" for o in objs) + " ".join(linkcmd)).encode()).hexdigest()
        old = None
        try:
            old = open(lstamp).read()
        except OSError:
            pass
        if old != objhash or not os.path.exists(exe):
            p = subprocess.run(linkcmd, capture_output=True, text=True)
            if p.returncode != 0:
                sys.stderr.write("LINK FAILED:\n%s\n" % p.stderr)
                return None
            open(lstamp, "w").write(objhash)
        if not quiet:
            sys.stderr.write("build[%s]: %d recompiled, %.1fs\n" % (flavour, len(rebuilt), time.time() - t0))
        return exe
    finally:
        fcntl.flock(lock, fcntl.LOCK_UN)
        lock.close()


if __name__ == "__main__":
    fl = sys.argv[1] if len(sys.argv) > 1 else "san"
    exe = build(fl)
    if not exe:
        sys.exit(2)
    print(exe)
