#!/usr/bin/env python3
"""Determinism proof: for every family, N run seeds are generated and executed twice each in fresh processes
(16 at a time, so that the two executions of a seed see different machine load, ASLR and pids); the complete
result text (verdict, trace hash, violations, counters, recorded schedule) must be identical.
usage: tools/determinism.py [seeds-per-family] [base-seed]      exit 0: identical everywhere, 1: a divergence"""
import concurrent.futures
import hashlib
import os
import subprocess
import sys
import tempfile

VERIF = os.path.dirname(os.path.dirname(os.path.abspath(__file__)))
sys.path.insert(0, os.path.join(VERIF, "tools"))
import build as buildmod  # noqa: E402


def families(exe):
    out = subprocess.run([exe, "list"], capture_output=True, text=True).stdout
    return [l.split("\t")[0] for l in out.splitlines() if l.strip()]


def one(exe, fam, seed, tier):
    plan = subprocess.run([exe, "gen", fam, str(seed), tier], capture_output=True, text=True, timeout=120).stdout
    res = []
    for attempt in range(2):
        with tempfile.NamedTemporaryFile("w", suffix=".plan", delete=False, dir=os.path.join(VERIF, "build")) as f:
            f.write(plan)
            path = f.name
        try:
            p = subprocess.run([exe, "exec", path], capture_output=True, text=True, timeout=600, errors="replace")
            res.append(hashlib.sha1(p.stdout.encode()).hexdigest() + (":" + str(p.returncode)))
        except subprocess.TimeoutExpired:
            res.append("timeout")
        os.unlink(path)
    # the generator itself must be a pure function of the seed as well
    plan2 = subprocess.run([exe, "gen", fam, str(seed), tier], capture_output=True, text=True, timeout=120).stdout
    return fam, seed, res[0] == res[1] and "timeout" not in res and plan == plan2, res


def main():
    n = int(sys.argv[1]) if len(sys.argv) > 1 else 200
    base = int(sys.argv[2]) if len(sys.argv) > 2 else 12345
    exe = buildmod.build(os.environ.get("VERIF_FLAVOUR", "san"))
    if not exe:
        return 2
    jobs = []
    for fam in families(exe):
        for i in range(n):
            jobs.append((fam, (base * 1000003 + i * 7919 + int(hashlib.sha1(fam.encode()).hexdigest()[:8], 16)) % (1 << 62)))
    bad = []
    per = {}
    with concurrent.futures.ThreadPoolExecutor(max_workers=16) as ex:
        for fam, seed, same, res in ex.map(lambda j: one(exe, j[0], j[1], "quick"), jobs):
            per.setdefault(fam, [0, 0])
            per[fam][0] += 1
            if not same:
                per[fam][1] += 1
                bad.append((fam, seed, res))
    for fam in sorted(per):
        print("%-6s %5d seeds executed twice, %d divergent" % (fam, per[fam][0], per[fam][1]))
    for b in bad[:20]:
        print("DIVERGENT family=%s seed=%d %s" % b)
    print("determinism: %d executions pairs, %d divergent" % (len(jobs), len(bad)))
    return 1 if bad else 0


if __name__ == "__main__":
    sys.exit(main())
