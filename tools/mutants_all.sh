#!/bin/bash
# Runs every stored mutant (seeded/<id>/patch-current.diff if present, else patch.diff) through the check of its property
# and writes one line per mutant to seeded/RESULTS.txt. /repo is restored after each one.
cd /verif
out=seeded/RESULTS.txt
: > $out.tmp
for d in /verif/seeded/C*/; do
  id=$(basename $d); prop=${id%%-*}
  p=$d/patch-current.diff; [ -f $p ] || p=$d/patch.diff
  if ! git -C /repo apply --check $p 2>/dev/null; then echo "$id does-not-apply" >> $out.tmp; continue; fi
  r=$(tools/mutant.sh $p $prop ${1:-0.5} 2>&1)
  viol=$(echo "$r" | grep '^violation:' | sed 's/^violation: //' | cut -d';' -f1 | cut -c1-150 | head -3 | tr '\n' '|')
  ex=$(echo "$r" | grep '^exit=' | tail -1)
  echo "$id $ex $viol" >> $out.tmp
done
mv $out.tmp $out
git -C /repo status --short | grep -v _build
