#!/bin/sh
# Builds /repo with cmake in a scratch directory WITHOUT -DEBUSD_VERIF and runs the repository's test suite.
set -e
D=$(mktemp -d /tmp/ebusd-baseline-XXXXXX)
trap 'rm -rf "$D"' EXIT
cmake -G Ninja -S /repo -B "$D" -DCMAKE_BUILD_TYPE=RelWithDebInfo -DBUILD_TESTING=ON >/dev/null
cmake --build "$D" >/dev/null
ctest --test-dir "$D" -j8 --timeout 900 --output-junit "$D/junit.xml"
