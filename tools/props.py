"""Per property: which simulation families decide it, how many runs per tier, evidence texts."""

COMPONENTS_L1 = {
    "real": ["src/lib/ebus/protocol_direct.cpp (DirectProtocolHandler, bus thread)", "src/lib/ebus/protocol.cpp (ProtocolHandler, addRequest, sendAndWait)",
             "src/lib/ebus/device_trans.cpp (PlainDevice, EnhancedDevice)", "src/lib/ebus/transport.cpp (FileTransport read/write/readConsumed/open/close)",
             "src/lib/ebus/symbol.cpp", "src/lib/utils/queue.h", "src/lib/utils/thread.cpp (Thread, WaitThread)", "src/lib/utils/clock.cpp", "src/lib/utils/log.cpp"],
    "stub": ["kernel (pthread, clock, ppoll/read/write/close on the device fd): /verif/sim/simkernel.cpp", "eBUS wire, SYN generator, other participants, adapter firmware: /verif/sim/simbus.cpp",
             "SerialTransport/NetworkTransport::openInternal replaced by SimTransport::openInternal (assigns the simulated fd)", "ProtocolListener and BusRequest subclasses are recording test doubles"],
}

ASSUME_COMMON = [
    "interleavings are explored at intercepted libc/pthread calls only; code between two such calls is atomic in the simulator",
    "the simulated bus represents analogue effects only as byte corruption and wired-AND collisions",
    "a clean batch is evidence from the listed seeds, not a proof",
]

PROPS = {
    "C01": {
        "families": ["c01a"],
        "runs": {"quick": 4000, "thorough": 60000},
        "level": "exploration",
        "rule": "one evaluation = one simulated run of the real protocol stack over a seeded traffic plan (well-formed, mutated, noisy telegrams; seeded chunking, latencies, stalls, handler configuration). "
                "A run is non-trivial if the reference parser found at least one telegram that MUST be reported or at least one invalid fragment; distinct = distinct trace hashes among those runs.",
        "components": COMPONENTS_L1,
        "assumptions": ASSUME_COMMON + ["gaps between the configured receive timeout and SYN timeout + latency + 8 ms are never generated and would be judged EITHER",
                                        "telegrams with NN > 16 are outside the statement and judged EITHER"],
    },
}
