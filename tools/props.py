"""Per property: which simulation families decide it, how many runs per tier, evidence texts."""

COMPONENTS_L1 = {
    "real": ["src/lib/ebus/protocol_direct.cpp (DirectProtocolHandler, bus thread)", "src/lib/ebus/protocol.cpp (ProtocolHandler, addRequest, sendAndWait)",
             "src/lib/ebus/device_trans.cpp (PlainDevice, EnhancedDevice)", "src/lib/ebus/transport.cpp (FileTransport read/write/readConsumed/open/close)",
             "src/lib/ebus/symbol.cpp", "src/lib/utils/queue.h", "src/lib/utils/thread.cpp (Thread, WaitThread)", "src/lib/utils/clock.cpp", "src/lib/utils/log.cpp"],
    "stub": ["kernel (pthread, clock, ppoll/read/write/close on the device fd): /verif/sim/simkernel.cpp", "eBUS wire, SYN generator, other participants, adapter firmware: /verif/sim/simbus.cpp",
             "SerialTransport/NetworkTransport::openInternal replaced by SimTransport::openInternal (assigns the simulated fd)", "ProtocolListener and BusRequest subclasses are recording test doubles"],
}

ASSUME_COMMON = [
    "interleavings are explored at intercepted libc/pthread calls only; code between two such calls is atomic in the simulator",
    "the simulated bus represents analogue effects only as byte corruption and wired-AND collisions",
    "a clean batch is evidence from the listed seeds, not a proof",
]

PROPS = {
    "C01": {
        # the passive oracle runs in every L1 family; a family listed more than once gets that share of the runs
        "families": ["c01a", "c01a", "c01a", "c01a", "c01b", "c01b", "c02", "c03", "c04", "c04s", "c15"],
        "runs": {"quick": 20000, "thorough": 300000},
        "level": "exploration",
        "rule": "one evaluation = one simulated run of the real protocol stack over a seeded traffic plan (well-formed, mutated, noisy telegrams; seeded chunking, latencies, stalls, handler configuration). "
                "A run is non-trivial if the reference parser found at least one telegram that MUST be reported or at least one invalid fragment; distinct = distinct trace hashes among those runs.",
        "components": COMPONENTS_L1,
        "assumptions": ASSUME_COMMON + ["gaps between the configured receive timeout and SYN timeout + latency + 8 ms are never generated and would be judged EITHER",
                                        "telegrams with NN > 16 are outside the statement and judged EITHER"],
    },
    "C02": {
        "families": ["c02"] * 3 + ["c02e"] * 3 + ["c01b", "c03", "c04", "c04s", "c15"],
        "runs": {"quick": 30000, "thorough": 400000},
        "level": "fault_enumeration",
        "rule": "one evaluation = one simulated run; family c02e enumerates, per seeded base scenario (request, configuration), every alternative of the addressed participant's reaction (ACK/NAK/other/silence/SYN at either attempt, response good/bad CRC/short/long/none at either attempt) and an echo mismatch at every transmitted byte position 0..23; c02/c01b add random multi-fault runs. Non-trivial = at least one own exchange reached the wire; distinct = distinct trace hashes among those.",
        "components": COMPONENTS_L1,
        "assumptions": ASSUME_COMMON + ["the final SYN is only demanded after a valid exchange", "after a second bad response NAK, NAK+SYN or SYN are all accepted (the statement only forbids ACK)"],
    },
    "C03": {
        "families": ["c03"] * 3 + ["c01a", "c01b", "c04", "c04s", "c15", "c02"],
        "runs": {"quick": 30000, "thorough": 400000},
        "level": "exploration",
        "rule": "one evaluation = one simulated run; every write of ebusd to the device is judged by an entitlement monitor from the bytes the kernel had handed to ebusd at that instant. In 45 % of the c03 plans 8..47 reads or polls come back early without data (readiness without data, read of 0 bytes, early poll return), mostly with ebusd configured as SYN generator. Non-trivial = ebusd transmitted at least once or was read-only with requests pending; distinct = distinct trace hashes among those.",
        "components": COMPONENTS_L1,
        "assumptions": ASSUME_COMMON + ["the lock counter is judged only through what the statement says explicitly: no arbitration at the first SYN after a lost arbitration"],
    },
    "C04": {
        "families": ["c04"] * 3 + ["c04s"] * 3 + ["c04e"] * 2 + ["c03", "c02", "c01b", "c15"],
        "claims": ["C04", "C02:false-success", "C02:wrong-slave-data"],   # a waiter released with success (or data) that no valid exchange of its own request produced got somebody else's result; use-after-free / double free of request objects and hangs are what C04 forbids: sanitizer and watchdog hits in these families count for C04
        "runs": {"quick": 30000, "thorough": 400000},
        "level": "fault_enumeration",
        "rule": "one evaluation = one simulated run with up to 6 concurrently submitting caller threads (sendAndWait, addRequest(wait), fire-and-forget with self deletion, restarting callbacks, submissions from the bus thread's own ps_empty notification); family c04e sweeps, per base scenario, 8 device fault kinds over the I/O call positions 10,13,..,187 of the device fd. A notification with an intermediate result code and a success (or slave data) that no valid exchange of the request's own telegram produced count for C04 as well. Non-trivial = at least one request was submitted and at least one fault fired or two threads were runnable at once; distinct = distinct trace hashes among those.",
        "components": COMPONENTS_L1,
        "assumptions": ASSUME_COMMON + ["liveness bound: 60 simulated seconds after the last fault and the last submission", "leaks are decided by construct/destroy accounting of the instrumented requests, LeakSanitizer is off"],
    },
    "C15": {
        "families": ["c15"] * 5 + ["c03", "c04", "c01b"],
        "runs": {"quick": 25000, "thorough": 300000},
        "level": "exploration",
        "rule": "one evaluation = one simulated run in answer mode with 1..5 registered answers (ID length 0..4, with/without source restriction, own slave/master or foreign destination) and scripted requesters sending telegrams derived from them (same/shorter/longer/mutated ID, good/bad CRC, NAK of the response). Non-trivial = at least one telegram addressed to an own address with a matching answer; distinct = distinct trace hashes among those.",
        "components": COMPONENTS_L1,
        "assumptions": ASSUME_COMMON,
    },
    "C14": {
        "families": ["c14e", "c14p"],
        "runs": {"quick": 30000, "thorough": 400000},
        "level": "fault_enumeration",
        "rule": "one evaluation = one generated adapter byte stream (1..7 segments with driver actions startArbitration/send/requestEnhancedInfo/clock advance in between; plain bytes, every response command incl. unknown ones, stray second bytes, dangling first bytes, reset and error frames) decoded by the real EnhancedDevice+FileTransport under the unsplit stream, the byte-by-byte split, EVERY two-way split, four seeded k-way splits and two kernel level chunkings (fresh device per partition), or (c14p) one feed/consume script against FileTransport alone. Non-trivial = stream longer than one byte / more than 4 bytes fed; distinct = distinct trace hashes among those.",
        "components": {"real": ["src/lib/ebus/device_trans.cpp (EnhancedDevice::recv/handleEnhancedBufferedData/send/startArbitration/requestEnhancedInfo/notifyTransportStatus)", "src/lib/ebus/transport.cpp (FileTransport::open/read/readConsumed/write/close)", "src/lib/ebus/device_enhanced.h"],
                       "stub": ["kernel (ppoll/read/write/close, time, usleep): /verif/sim/simkernel.cpp", "adapter byte stream: generated, fed into the simulated fd", "DeviceListener/TransportListener: recording test doubles"]},
        "assumptions": ASSUME_COMMON + ["after a RESETTED that is not the answer to an INIT sent less than 2.5 s ago the rest of the stream is not judged (the transport is closed)", "the byte directly following a dangling first byte may be lost or decoded"],
    },
    "C13": {
        "families": ["c13"],
        "runs": {"quick": 40000, "thorough": 500000},
        "level": "exploration",
        "rule": "one evaluation = one simulated run of the real MessageMap/Condition code: generated referenced messages (1..3 numeric/string fields), conditions of every shape (value lists, ranges, <,>,<=,>=, strings, combined, derived on the fly, without values, unresolvable ones), guarded messages, and a history of stores (bus role thread), clock steps (0, 1 ms, 400 ms, 1 s, 61 s) and availability queries through find() by name and by telegram (main role thread). Non-trivial = at least one query; distinct = distinct trace hashes among those.",
        "components": {"real": ["src/lib/ebus/message.cpp (MessageMap, Message, SimpleCondition, CombinedCondition, readConditions, resolveConditions, find, storeLastData)", "src/lib/ebus/data.cpp, datatype.cpp (field decode, hasField)", "src/lib/ebus/filereader.cpp"],
                       "stub": ["clock and the two role threads' scheduling: /verif/sim/simkernel.cpp", "Resolver: minimal test double (no templates, no includes)"]},
        "assumptions": ASSUME_COMMON + ["a query that overlaps a store of the referenced message in the recorded op order is not judged", "scan conditions are not generated"],
    },
    "C17": {
        "families": ["c17"] * 9 + ["c17d"],
        "runs": {"quick": 20000, "thorough": 300000},
        "level": "exploration",
        "rule": "one evaluation = one simulated run: 2..12 pollable messages with priorities 0..9 loaded from CSV, phases of 150..1650 getNextPoll() calls (bus role) with clock steps, separated by priority changes with front/back re-insertion and by definitions loaded late (main role). Judged per perturbation-free window against stride scheduling bounds (doubled constant 36, one settling window). One run in ten is family c17d: the whole daemon for 72 simulated seconds with one poll per second, 2..4 poll messages of priority 1..3 and clients repeating 'read -p N -m 300' for the priority a message already has; every enrolled message must be polled in [12 s, 40 s] and in [40 s, 68 s]. Non-trivial = more than 50 selections (c17d: at least one message judged); distinct = distinct trace hashes among those.",
        "components": {"real": ["src/lib/ebus/message.cpp (MessageMap::getNextPoll/addPollMessage/add, Message::setPollPriority/isLessPollWeight)", "family c17d: whole daemon except main()"],
                       "stub": ["clock and role threads: /verif/sim/simkernel.cpp", "Resolver: minimal test double", "family c17d: as C09"]},
        "assumptions": ASSUME_COMMON + ["fairness bounds: |n_i*p_i - n_j*p_j| <= 36 + 2*max(p) and re-selection within 1 + sum floor(36/p_j) + 2 selections, after one settling window following each perturbation"],
    },
    "C09": {"families": ["c09"] * 5 + ["c12o"] * 2 + ["c09w", "c09s", "c09f", "c09f"], "claims": ["C12:load-order-dependent-result"], "runs": {"quick": 15000, "thorough": 300000}, "level": "exploration", "timeout_ms": 30000,
        "rule": "one evaluation = one simulated run of the whole daemon (everything but main()) with a generated definition set (read/write, 1..3 fields of UCH SCH UIN ULG HEX STR, chained IDs with explicit lengths, poll priorities), a simulated heating system answering every exchange with values unique in the run, 1..3 TCP clients issuing read/read -f/write, slave reactions with NAK/bad CRC/silence, polls in the background. Non-trivial = at least one client command was judged; distinct = distinct trace hashes among those.",
        "components": {"real": ["src/ebusd: mainloop.cpp bushandler.cpp network.cpp request.cpp scan.cpp main_args.cpp datahandler.cpp mqtthandler.cpp", "src/lib/ebus: all", "src/lib/utils: all"],
                       "stub": ["main() (assembly replicated in /verif/sim/h_l3.cpp)", "kernel, sockets, clock, scheduler: /verif/sim/simkernel.cpp", "bus, slaves, SYN generator: /verif/sim/simbus.cpp", "MQTT client library: /verif/sim/mqtt_stub.cpp", "KNX, SSL, update check: not built / disabled"]},
        "assumptions": ASSUME_COMMON + ["only the end-to-end path with time, retries and multi-step I/O is decided; the purely combinatorial part of the statement is not claimed"]},
    "C12": {"families": ["c12"] * 5 + ["c12o"] * 4 + ["c12n"], "claims": ["C09:telegram-not-identified"],   # a stored passive value that can no longer be read back is a history dependent result as well
        "runs": {"quick": 20000, "thorough": 400000}, "level": "exploration", "timeout_ms": 30000,
        "rule": "one evaluation = one simulated run of the whole daemon: 1..3 client connections issue hostile encode/decode/read/write/find commands (overflowing, malformed, unknown types) interleaved with probe commands whose result a pristine instance gives (reference codec); the simulated kernel additionally leaves errno clobbered after successful calls. One run in ten is family c12n: two names defined in the same two circuits under one true condition in opposite line orders, read by name without circuit (the same circuit must be selected for both). Non-trivial = at least one probe judged; distinct = distinct trace hashes among those.",
        "components": {"real": ["whole daemon except main()"], "stub": ["as C09"]},
        "assumptions": ASSUME_COMMON + ["history independence is decided for the operations that pass through the daemon; leakage between two fields of one pure call is not covered"]},
    "C16": {"families": ["c16"] * 3 + ["c16v"], "runs": {"quick": 15000, "thorough": 300000}, "level": "exploration", "timeout_ms": 30000,
        "rule": "one evaluation = one simulated run of the whole daemon with a generated ACL (users, default levels, level names that are prefixes/suffixes/infixes of each other, '*'), levelled messages, and 2..5 interleaved TCP sessions (auth right/wrong/unknown, read/write by name with and without circuit, hex forms, read -p) plus HTTP /data requests with user and secret (wrong secrets incl. look-alikes of the right one; in a third of the plans a second file with a level column and a defaults row that hands its level down). One run in four is family c16v: two conditional variants of one circuit/name, one of them levelled, in both file orders and with either one active; forced and cached reads, find -v -d, HTTP /data and listen mode by clients with the level, with look-alike levels and without authentication. Non-trivial = at least one command judged; distinct = distinct trace hashes.",
        "components": {"real": ["whole daemon except main()"], "stub": ["as C09"]},
        "assumptions": ASSUME_COMMON + ["the hex command (--enablehex) and find -l are outside the statement"]},
    "C18": {"families": ["c18t", "c18h", "c18m"], "runs": {"quick": 24000, "thorough": 400000}, "level": "exploration", "timeout_ms": 30000,
        "rule": "one evaluation = one simulated run of the whole daemon: TCP command lines over {a,b,blank,double quote,single quote} under seeded TCP segmentation, observed through 'encode STR:16 VALUE' (the response is the hex of exactly the argument the interpreter saw; a wrong argument count shows as the usage text); HTTP GET requests over a fixed html root with a sentinel file outside it, URIs with percent escapes (incl. double encoding, encoded dots and slashes). Non-trivial = at least one command judged; distinct = distinct trace hashes.",
        "components": {"real": ["whole daemon except main()"], "stub": ["as C09"]},
        "assumptions": ASSUME_COMMON + ["pipelined TCP command lines are not generated (the client protocol is request/response)", "invalid percent escapes are not judged"]},
    # sanitizers and watchdogs watch every family
    "C20": {"families": ["c20"] * 10 + ["c20s"] * 4 + ["c14e", "c14e", "c14e", "c14p", "c01a", "c01b", "c15", "c04", "c04s", "c04s", "c04s", "c04s", "c09", "c12", "c12o", "c12n", "c16", "c16v", "c18t", "c18h", "c18m", "c13", "c17", "c17d", "c09w", "c09s", "c09f", "c02", "c03"], "runs": {"quick": 20000, "thorough": 300000}, "level": "exploration", "timeout_ms": 30000,
        "claims": ["C20"],
        "rule": "one evaluation = one simulated run under ASan+UBSan: (c20) whole daemon with garbage command lines, HTTP requests, definition text through define/read -def/decode/encode, garbage symbols on the bus, then valid probes that must still be answered correctly; (c14e) arbitrary adapter frames; (c01a, c15) arbitrary bus traffic with and without registered answers. Any sanitizer report, abort, deadlock, step budget overrun or wrong probe result is a violation. Non-trivial as in the families; distinct = distinct trace hashes.",
        "components": {"real": ["whole daemon except main() (c20); protocol stack (c01a, c15); device layer (c14e)"], "stub": ["as C09"]},
        "assumptions": ASSUME_COMMON + ["seeded grammar-biased generation, not coverage guided fuzzing", "LeakSanitizer is off (140 ms per process); request leaks are decided by C04's accounting"]},
}
