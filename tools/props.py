"""Per property: which simulation families decide it, how many runs per tier, evidence texts."""

COMPONENTS_L1 = {
    "real": ["src/lib/ebus/protocol_direct.cpp (DirectProtocolHandler, bus thread)", "src/lib/ebus/protocol.cpp (ProtocolHandler, addRequest, sendAndWait)",
             "src/lib/ebus/device_trans.cpp (PlainDevice, EnhancedDevice)", "src/lib/ebus/transport.cpp (FileTransport read/write/readConsumed/open/close)",
             "src/lib/ebus/symbol.cpp", "src/lib/utils/queue.h", "src/lib/utils/thread.cpp (Thread, WaitThread)", "src/lib/utils/clock.cpp", "src/lib/utils/log.cpp"],
    "stub": ["kernel (pthread, clock, ppoll/read/write/close on the device fd): /verif/sim/simkernel.cpp", "eBUS wire, SYN generator, other participants, adapter firmware: /verif/sim/simbus.cpp",
             "SerialTransport/NetworkTransport::openInternal replaced by SimTransport::openInternal (assigns the simulated fd)", "ProtocolListener and BusRequest subclasses are recording test doubles"],
}

ASSUME_COMMON = [
    "interleavings are explored at intercepted libc/pthread calls only; code between two such calls is atomic in the simulator",
    "the simulated bus represents analogue effects only as byte corruption and wired-AND collisions",
    "a clean batch is evidence from the listed seeds, not a proof",
]

PROPS = {
    "C01": {
        "families": ["c01a"],
        "runs": {"quick": 20000, "thorough": 300000},
        "level": "exploration",
        "rule": "one evaluation = one simulated run of the real protocol stack over a seeded traffic plan (well-formed, mutated, noisy telegrams; seeded chunking, latencies, stalls, handler configuration). "
                "A run is non-trivial if the reference parser found at least one telegram that MUST be reported or at least one invalid fragment; distinct = distinct trace hashes among those runs.",
        "components": COMPONENTS_L1,
        "assumptions": ASSUME_COMMON + ["gaps between the configured receive timeout and SYN timeout + latency + 8 ms are never generated and would be judged EITHER",
                                        "telegrams with NN > 16 are outside the statement and judged EITHER"],
    },
    "C02": {
        "families": ["c02", "c02e", "c01b"],
        "runs": {"quick": 30000, "thorough": 400000},
        "level": "fault_enumeration",
        "rule": "one evaluation = one simulated run; family c02e enumerates, per seeded base scenario (request, configuration), every alternative of the addressed participant's reaction (ACK/NAK/other/silence/SYN at either attempt, response good/bad CRC/short/long/none at either attempt) and an echo mismatch at every transmitted byte position 0..23; c02/c01b add random multi-fault runs. Non-trivial = at least one own exchange reached the wire; distinct = distinct trace hashes among those.",
        "components": COMPONENTS_L1,
        "assumptions": ASSUME_COMMON + ["the final SYN is only demanded after a valid exchange", "after a second bad response NAK, NAK+SYN or SYN are all accepted (the statement only forbids ACK)"],
    },
    "C03": {
        "families": ["c03", "c01a", "c01b", "c04", "c15"],
        "runs": {"quick": 30000, "thorough": 400000},
        "level": "exploration",
        "rule": "one evaluation = one simulated run; every write of ebusd to the device is judged by an entitlement monitor from the bytes the kernel had handed to ebusd at that instant. Non-trivial = ebusd transmitted at least once or was read-only with requests pending; distinct = distinct trace hashes among those.",
        "components": COMPONENTS_L1,
        "assumptions": ASSUME_COMMON + ["the lock counter is judged only through what the statement says explicitly: no arbitration at the first SYN after a lost arbitration"],
    },
    "C04": {
        "families": ["c04", "c04e", "c03"],
        "claims": ["C04"],   # use-after-free / double free of request objects and hangs are what C04 forbids: sanitizer and watchdog hits in these families count for C04
        "runs": {"quick": 30000, "thorough": 400000},
        "level": "fault_enumeration",
        "rule": "one evaluation = one simulated run with up to 6 concurrently submitting caller threads (sendAndWait, addRequest(wait), fire-and-forget with self deletion, restarting callbacks, submissions from the bus thread's own ps_empty notification); family c04e sweeps, per base scenario, 8 device fault kinds over the I/O call positions 10,13,..,187 of the device fd. Non-trivial = at least one request was submitted and at least one fault fired or two threads were runnable at once; distinct = distinct trace hashes among those.",
        "components": COMPONENTS_L1,
        "assumptions": ASSUME_COMMON + ["liveness bound: 60 simulated seconds after the last fault and the last submission", "leaks are decided by construct/destroy accounting of the instrumented requests, LeakSanitizer is off"],
    },
    "C15": {
        "families": ["c15"],
        "runs": {"quick": 25000, "thorough": 300000},
        "level": "exploration",
        "rule": "one evaluation = one simulated run in answer mode with 1..5 registered answers (ID length 0..4, with/without source restriction, own slave/master or foreign destination) and scripted requesters sending telegrams derived from them (same/shorter/longer/mutated ID, good/bad CRC, NAK of the response). Non-trivial = at least one telegram addressed to an own address with a matching answer; distinct = distinct trace hashes among those.",
        "components": COMPONENTS_L1,
        "assumptions": ASSUME_COMMON,
    },
    "C14": {
        "families": ["c14e", "c14p"],
        "runs": {"quick": 30000, "thorough": 400000},
        "level": "fault_enumeration",
        "rule": "one evaluation = one generated adapter byte stream (1..7 segments with driver actions startArbitration/send/requestEnhancedInfo/clock advance in between; plain bytes, every response command incl. unknown ones, stray second bytes, dangling first bytes, reset and error frames) decoded by the real EnhancedDevice+FileTransport under the unsplit stream, the byte-by-byte split, EVERY two-way split, four seeded k-way splits and two kernel level chunkings (fresh device per partition), or (c14p) one feed/consume script against FileTransport alone. Non-trivial = stream longer than one byte / more than 4 bytes fed; distinct = distinct trace hashes among those.",
        "components": {"real": ["src/lib/ebus/device_trans.cpp (EnhancedDevice::recv/handleEnhancedBufferedData/send/startArbitration/requestEnhancedInfo/notifyTransportStatus)", "src/lib/ebus/transport.cpp (FileTransport::open/read/readConsumed/write/close)", "src/lib/ebus/device_enhanced.h"],
                       "stub": ["kernel (ppoll/read/write/close, time, usleep): /verif/sim/simkernel.cpp", "adapter byte stream: generated, fed into the simulated fd", "DeviceListener/TransportListener: recording test doubles"]},
        "assumptions": ASSUME_COMMON + ["after a RESETTED that is not the answer to an INIT sent less than 2.5 s ago the rest of the stream is not judged (the transport is closed)", "the byte directly following a dangling first byte may be lost or decoded"],
    },
    "C13": {
        "families": ["c13"],
        "runs": {"quick": 40000, "thorough": 500000},
        "level": "exploration",
        "rule": "one evaluation = one simulated run of the real MessageMap/Condition code: generated referenced messages (1..3 numeric/string fields), conditions of every shape (value lists, ranges, <,>,<=,>=, strings, combined, derived on the fly, without values, unresolvable ones), guarded messages, and a history of stores (bus role thread), clock steps (0, 1 ms, 400 ms, 1 s, 61 s) and availability queries through find() by name and by telegram (main role thread). Non-trivial = at least one query; distinct = distinct trace hashes among those.",
        "components": {"real": ["src/lib/ebus/message.cpp (MessageMap, Message, SimpleCondition, CombinedCondition, readConditions, resolveConditions, find, storeLastData)", "src/lib/ebus/data.cpp, datatype.cpp (field decode, hasField)", "src/lib/ebus/filereader.cpp"],
                       "stub": ["clock and the two role threads' scheduling: /verif/sim/simkernel.cpp", "Resolver: minimal test double (no templates, no includes)"]},
        "assumptions": ASSUME_COMMON + ["a query that overlaps a store of the referenced message in the recorded op order is not judged", "scan conditions are not generated"],
    },
    "C17": {
        "families": ["c17"],
        "runs": {"quick": 20000, "thorough": 300000},
        "level": "exploration",
        "rule": "one evaluation = one simulated run: 2..12 pollable messages with priorities 0..9 loaded from CSV, phases of 150..1650 getNextPoll() calls (bus role) with clock steps, separated by priority changes with front/back re-insertion and by definitions loaded late (main role). Judged per perturbation-free window against stride scheduling bounds (doubled constant 36, one settling window). Non-trivial = more than 50 selections; distinct = distinct trace hashes among those.",
        "components": {"real": ["src/lib/ebus/message.cpp (MessageMap::getNextPoll/addPollMessage/add, Message::setPollPriority/isLessPollWeight)"],
                       "stub": ["clock and role threads: /verif/sim/simkernel.cpp", "Resolver: minimal test double"]},
        "assumptions": ASSUME_COMMON + ["fairness bounds: |n_i*p_i - n_j*p_j| <= 36 + 2*max(p) and re-selection within 1 + sum floor(36/p_j) + 2 selections, after one settling window following each perturbation"],
    },
}
